"""Additional engines for the thorough tier: Miri (many scheduler seeds) and ThreadSanitizer runs of the
same monitor binaries in --small mode.  Each returns
  {"summary": {...}, "violations": [...], "inconclusive": [...], "evaluations": n}
"""
import json, os, re, subprocess, time

RUSTFLAGS = "--cfg similari_verif"

# per-binary parameters of the small workloads
MIRI = {
    "c16": {"seeds": 4, "params": {"cases": 2, "maxlen": 17}, "timeout_s": 900},
    "c09": {"seeds": 16, "params": {"cases": 2}, "timeout_s": 1500},
    "c10": {"seeds": 48, "params": {"cases": 3}, "timeout_s": 1500},
    "c05": {"seeds": 16, "params": {"cases": 1}, "timeout_s": 1500},
    "c06": {"seeds": 16, "params": {"cases": 2}, "timeout_s": 2400},
}
TSAN = {
    "c10": {"params": {"cases": 1200}, "timeout_s": 2400},
    "c06": {"params": {"cases": 400}, "timeout_s": 2400},
    # random store sequences with the concurrent-reader phases (four threads on the &self operations)
    "c09": {"params": {"cases": 160}, "timeout_s": 2400},
    # all four tracker kinds, shard counts 2..8, pipelined batch submission with consumer threads
    "c05": {"params": {"cases": 16}, "timeout_s": 2400},
}


def _env(extra=None):
    e = dict(os.environ)
    e["CARGO_NET_OFFLINE"] = "true"
    e.pop("RUSTC_WRAPPER", None)
    if extra:
        e.update(extra)
    return e


def classify_miri(stderr):
    if re.search(r"error: Undefined Behavior", stderr):
        m = re.search(r"error: Undefined Behavior: (.*)", stderr)
        return "undefined-behavior", (m.group(1) if m else "")[:300]
    if re.search(r"Data race detected", stderr):
        return "data-race", re.search(r".*Data race detected.*", stderr).group(0)[:300]
    if re.search(r"error: deadlock", stderr) or "the evaluated program deadlocked" in stderr:
        return "deadlock", "the evaluated program deadlocked"
    if re.search(r"error: unsupported operation", stderr):
        m = re.search(r"error: unsupported operation: (.*)", stderr)
        return "unsupported", (m.group(1) if m else "")[:300]
    if re.search(r"error: memory leaked", stderr) or "memory leaked" in stderr:
        return "leak", "memory leaked"
    return None, ""


def run_miri(binary, prop, seed, VERIF, TARGET, log):
    cfg = MIRI[binary]
    rundir = os.path.join(TARGET, "run", prop, "miri")
    os.makedirs(rundir, exist_ok=True)
    manifest = os.path.join(VERIF, "harness/Cargo.toml")
    tdir = os.path.join(TARGET, "miri")
    params = []
    for k, v in cfg["params"].items():
        params += ["--param", f"{k}={v}"]

    def cmd(k):
        out = os.path.join(rundir, f"seed_{k}.json")
        return (["cargo", "+nightly", "miri", "run", "--offline", "--manifest-path", manifest, "--target-dir", tdir,
                 "--bin", binary, "--", "--small", "--seed", str(seed * 1000 + k), "--shard", "0/1", "--tier", "thorough",
                 "--out", out] + params, out)

    def env(k):
        return _env({"RUSTFLAGS": RUSTFLAGS,
                     "MIRIFLAGS": f"-Zmiri-disable-isolation -Zmiri-seed={k} -Zmiri-ignore-leaks -Zmiri-tree-borrows"})

    t0 = time.time()
    res = {"summary": {"engine": "miri", "binary": binary, "seeds": cfg["seeds"]}, "violations": [], "inconclusive": [], "evaluations": 0}
    procs = []
    outcomes = {}
    # first seed alone (builds), the rest in parallel batches of 16
    order = list(range(cfg["seeds"]))
    batches = [order[:1]] + [order[i:i + 16] for i in range(1, len(order), 16)]
    deadline = t0 + cfg["timeout_s"]
    for batch in batches:
        procs = []
        for k in batch:
            c, out = cmd(k)
            if os.path.exists(out):
                os.remove(out)
            lg = os.path.join(rundir, f"seed_{k}.log")
            f = open(lg, "w")
            procs.append((k, subprocess.Popen(c, env=env(k), stdout=f, stderr=subprocess.STDOUT), out, lg, f))
        for k, p, out, lg, f in procs:
            try:
                rc = p.wait(timeout=max(5, deadline - time.time()))
            except subprocess.TimeoutExpired:
                p.kill(); p.wait(); rc = "timeout"
            f.close()
            outcomes[k] = (rc, out, lg)
    ok = 0
    kinds = {}
    evals = 0
    timed_out = []
    for k, (rc, out, lg) in sorted(outcomes.items()):
        text = open(lg, errors="replace").read()
        kind, msg = classify_miri(text)
        rep = None
        if os.path.exists(out):
            try:
                rep = json.load(open(out))
            except Exception:
                rep = None
        if rep:
            evals += rep.get("evaluations", 0)
        if kind in ("undefined-behavior", "data-race", "deadlock"):
            res["violations"].append({"signature": f"{prop}/miri/{kind}", "seed": seed, "shard": 0, "nshards": 1, "tier": "thorough",
                                      "small": True, "params": cfg["params"], "index": -1,
                                      "detail": {"miri_seed": k, "message": msg, "log_tail": text[-1500:]}})
            kinds[kind] = kinds.get(kind, 0) + 1
        elif rc == "timeout":
            # a scheduler seed under which the interpreted program did not finish in time observed nothing; it is counted
            # (summary: seeds_timed_out) and makes the run inconclusive only when more than a quarter of the seeds end so
            timed_out.append(k)
        elif kind == "unsupported" or (rep is None):
            res["inconclusive"].append(f"miri seed {k}: rc={rc} {kind or ''} {msg}"[:300])
        else:
            if rep.get("violations"):
                for v in rep["violations"]:
                    v = dict(v)
                    v["detail"] = {"miri_seed": k, "detail": v.get("detail")}
                    res["violations"].append(v)
            elif rep.get("inconclusive"):
                # floors inside a tiny workload are not meaningful; only hard failures count
                pass
            ok += 1
    res["evaluations"] = evals
    res["summary"]["seeds_timed_out"] = len(timed_out)
    if len(timed_out) * 4 > cfg["seeds"]:
        res["inconclusive"].append(f"miri: {len(timed_out)} of {cfg['seeds']} scheduler seeds did not finish within the time limit (seeds {timed_out})")
    res["summary"].update({"seeds_completed_without_report": ok, "reports": kinds, "wall_s": round(time.time() - t0, 1)})
    return res


def run_tsan(binary, prop, seed, VERIF, TARGET, log):
    cfg = TSAN[binary]
    rundir = os.path.join(TARGET, "run", prop, "tsan")
    os.makedirs(rundir, exist_ok=True)
    manifest = os.path.join(VERIF, "harness/Cargo.toml")
    tdir = os.path.join(TARGET, "tsan")
    t0 = time.time()
    res = {"summary": {"engine": "tsan", "binary": binary}, "violations": [], "inconclusive": [], "evaluations": 0}
    env = _env({"RUSTFLAGS": RUSTFLAGS + " -Zsanitizer=thread", "RUSTC_BOOTSTRAP": "0"})
    b = subprocess.run(["cargo", "+nightly", "build", "--offline", "-Zbuild-std", "--target", "x86_64-unknown-linux-gnu",
                        "--manifest-path", manifest, "--target-dir", tdir, "--bin", binary],
                       env=env, stdout=subprocess.PIPE, stderr=subprocess.STDOUT, text=True)
    if b.returncode != 0:
        res["inconclusive"].append("tsan build failed: " + b.stdout[-400:])
        return res
    exe = os.path.join(tdir, "x86_64-unknown-linux-gnu", "debug", binary)
    procs = []
    n = 8
    for i in range(n):
        out = os.path.join(rundir, f"shard_{i}.json")
        if os.path.exists(out):
            os.remove(out)
        params = []
        for k, v in cfg["params"].items():
            params += ["--param", f"{k}={v}"]
        lg = os.path.join(rundir, f"shard_{i}.log")
        f = open(lg, "w")
        e = dict(os.environ)
        e["TSAN_OPTIONS"] = "halt_on_error=1 exitcode=66 second_deadlock_stack=1"
        procs.append((i, subprocess.Popen([exe, "--seed", str(seed), "--shard", f"{i}/{n}", "--tier", "quick", "--out", out] + params,
                                          env=e, stdout=f, stderr=subprocess.STDOUT), out, lg, f))
    reports = 0
    done = 0
    for i, p, out, lg, f in procs:
        try:
            rc = p.wait(timeout=cfg["timeout_s"])
        except subprocess.TimeoutExpired:
            p.kill(); p.wait(); rc = "timeout"
        f.close()
        text = open(lg, errors="replace").read()
        if rc == 66 or "WARNING: ThreadSanitizer" in text:
            reports += 1
            m = re.search(r"WARNING: ThreadSanitizer: (.*)", text)
            res["violations"].append({"signature": f"{prop}/tsan/{(m.group(1) if m else 'report').split(' (')[0]}", "seed": seed, "shard": i, "nshards": n,
                                      "tier": "quick", "params": cfg["params"], "index": -1, "detail": {"log_tail": text[-2000:]}})
        elif rc == "timeout":
            res["inconclusive"].append(f"tsan shard {i}: timeout")
        else:
            done += 1
            if os.path.exists(out):
                try:
                    rep = json.load(open(out))
                    res["evaluations"] += rep.get("evaluations", 0)
                    for v in rep.get("violations", []):
                        res["violations"].append(v)
                except Exception:
                    pass
    res["summary"].update({"processes_without_report": done, "reports": reports, "wall_s": round(time.time() - t0, 1)})
    return res


_ALLOC = re.compile(r"^(malloc|free|calloc|realloc|memalign|posix_memalign|mem(cpy|move|set|cmp)|__mem\w+|str\w+|_int_\w+|operator |vg_replace|__GI_|_dl_|__libc)")


def _faulting_frame_is_rust(block):
    """True iff the first frame that is not an allocator / mem* routine is Rust code of the extension module.
    CPython's own (well known, constant) uninitialised-value reports fault inside libpython functions and are
    excluded even when pyo3 code appears further up the stack."""
    for line in block.splitlines():
        m = re.match(r"==\d+==\s+(?:at|by) 0x[0-9A-Fa-f]+: (.*)$", line)
        if not m:
            continue
        fn = m.group(1)
        if _ALLOC.match(fn):
            continue
        return "::" in fn.split(" (")[0] or "similari" in fn
    return False


def run_valgrind(binary, prop, seed, VERIF, TARGET, log):
    """E5: valgrind memcheck over CPython + the real similari.so driven by a slice of the C18 scripts.
    Only report blocks with a frame inside similari.so count (CPython's own noise is constant and excluded by that rule)."""
    rundir = os.path.join(TARGET, "run", prop, "valgrind")
    os.makedirs(rundir, exist_ok=True)
    exe = os.path.join(TARGET, "native", "debug", binary)
    t0 = time.time()
    res = {"summary": {"engine": "valgrind-memcheck", "binary": "python3 + similari.so"}, "violations": [], "inconclusive": [], "evaluations": 0}
    n = 6
    procs = []
    for i in range(n):
        out = os.path.join(rundir, f"shard_{i}.json")
        for fpath in (out, os.path.join(rundir, f"valgrind_{i}.log")):
            if os.path.exists(fpath):
                os.remove(fpath)
        lg = open(os.path.join(rundir, f"shard_{i}.log"), "w")
        # (module, driver and repository paths are passed explicitly: the defaults of the binary point into /verif)
        cmd = [exe, "--seed", str(seed + 7), "--shard", f"{i}/{n}", "--tier", "quick", "--out", out, "--param", "cases=36",
               "--param", "valgrind=1", "--param", f"rundir={rundir}", "--param", "moddir=" + os.path.join(TARGET, "py", "mod"),
               "--param", "driver=" + os.path.join(VERIF, "harness/pydrv/driver.py"), "--param", "repo=" + os.environ.get("VERIF_REPO", "/repo")]
        procs.append((i, subprocess.Popen(cmd, stdout=lg, stderr=subprocess.STDOUT), out, lg))
    blocks_total = 0
    ours = 0
    for i, p, out, lg in procs:
        try:
            rc = p.wait(timeout=2400)
        except subprocess.TimeoutExpired:
            p.kill(); p.wait(); rc = "timeout"
        lg.close()
        if rc == "timeout":
            res["inconclusive"].append(f"valgrind shard {i}: timeout")
            continue
        vlog = os.path.join(rundir, f"valgrind_{i}.log")
        if not os.path.exists(vlog):
            res["inconclusive"].append(f"valgrind shard {i}: no log")
            continue
        text = open(vlog, errors="replace").read()
        # split into report blocks (separated by lines holding only the ==pid== prefix)
        blocks = re.split(r"\n==\d+== \n", text)
        for b in blocks:
            if not re.search(r"(Invalid (read|write|free)|uninitialised|Mismatched free|definitely lost|Source and destination overlap)", b):
                continue
            blocks_total += 1
            if _faulting_frame_is_rust(b) and "definitely lost" not in b:
                ours += 1
                first = [l for l in b.splitlines() if "similari" in l][:1]
                kind = re.search(r"(Invalid (?:read|write|free)|[Uu]se of uninitialised value|Conditional jump or move depends on uninitialised|Mismatched free|Source and destination overlap)", b)
                res["violations"].append({"signature": f"{prop}/valgrind/{(kind.group(1) if kind else 'report').replace(' ', '-')}", "seed": seed, "shard": i, "nshards": n,
                                          "tier": "thorough", "params": {"valgrind": 1}, "index": -1, "detail": {"block": b[:2500], "first_similari_frame": first}})
        if os.path.exists(out):
            try:
                rep = json.load(open(out))
                res["evaluations"] += rep.get("evaluations", 0)
                res["violations"] += rep.get("violations", [])
            except Exception:
                pass
    res["summary"].update({"report_blocks_total": blocks_total, "report_blocks_with_similari_frame": ours, "wall_s": round(time.time() - t0, 1)})
    return res


def run_engine(eng, prop, seed, tier, VERIF, TARGET, log):
    kind, binary = eng.split(":")
    log(f"engine {eng} ...")
    if kind == "miri":
        return run_miri(binary, prop, seed, VERIF, TARGET, log)
    if kind == "tsan":
        return run_tsan(binary, prop, seed, VERIF, TARGET, log)
    if kind == "valgrind":
        return run_valgrind(binary, prop, seed, VERIF, TARGET, log)
    raise ValueError(eng)
