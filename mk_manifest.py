#!/usr/bin/env python3
"""Regenerates MANIFEST.json from checkcfg.PROPS and the texts in manifest_texts.py."""
import json, os, subprocess
import checkcfg, manifest_texts as T

here = os.path.dirname(os.path.abspath(__file__))
hooks = subprocess.run(["git", "-C", "/repo", "log", "--format=%H %s"], capture_output=True, text=True).stdout.splitlines()
hook_commits = [l.split()[0] for l in hooks if " verif hook:" in l]
checks = []
for pid in sorted(checkcfg.PROPS):
    t = T.TEXTS[pid]
    c = {
        "property_id": pid,
        "quick_cmd": f"./check {pid} --tier quick",
        "thorough_cmd": f"./check {pid} --tier thorough",
        "evidence_file": f"/verif/evidence/{pid}.json",
        "replay_cmd_template": f"./check {pid} --replay {{path}}",
        "engine": t.get("engine", "native-oracle"),
        "level_claimed": {"category": checkcfg.PROPS[pid].get("level", "exploration"), "text": t["level_text"], "design_ref": f"DESIGN.md §5 {pid}"},
        "level_note": t["level_note"],
        "technique": t["technique"],
    }
    checks.append(c)
all_ids = [f"C{i:02d}" for i in range(1, 21)]
na = [{"property_id": p, "reason": T.NOT_APPLICABLE.get(p, "monitor not built yet in this session (work in progress); no claim is made")} for p in all_ids if p not in checkcfg.PROPS]
m = {
    "version": 1,
    "setup_cmd": "./setup.sh",
    "hooks": {
        "guard": "--cfg similari_verif",
        "enable": "RUSTFLAGS=\"--cfg similari_verif\" cargo build (path dependency on /repo from /verif/harness; the guard is a rustc cfg, not a cargo feature)",
        "baseline_off_cmd": "cd /repo && cargo test --workspace --no-fail-fast --offline",
        "source_commits": hook_commits,
        "add_only": True,
    },
    "engines": T.ENGINES,
    "checks": checks,
    "notes": T.NOTES,
    "not_applicable": na,
}
json.dump(m, open(os.path.join(here, "MANIFEST.json"), "w"), indent=1)
print("wrote MANIFEST.json with", len(checks), "checks,", len(na), "not claimed")
