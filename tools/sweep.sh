#!/bin/sh
# usage: tools/sweep.sh <tier> <seed>...   : runs every check at the given seeds, prints one line per run
tier=$1; shift
cd "$(dirname "$0")/.."
for s in "$@"; do
  for p in C01 C02 C03 C04 C05 C06 C07 C08 C09 C10 C11 C12 C13 C14 C15 C16 C17 C18 C19 C20; do
    out=$(./check $p --tier $tier --seed $s 2>&1); rc=$?
    echo "seed=$s $p rc=$rc $(echo "$out" | grep -E '^(OK|VIOLATION|INCONCLUSIVE)' | head -2 | tr '\n' ' ' | cut -c1-220)"
  done
done
