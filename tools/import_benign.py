#!/usr/bin/env python3
"""import_benign.py <area> : copy /tmp/wt/B-<area>/out/benign<i>.{diff,json} into /verif/benign/<area>-<i>/"""
import json, os, shutil, sys
AREAS = {"store": ["C09", "C10", "C11"], "trackers": ["C01", "C02", "C03", "C04", "C05", "C06", "C20"], "visual": ["C12", "C13", "C15", "C17"], "numeric": ["C07", "C08", "C14", "C16", "C19"], "python": ["C18"]}
area = sys.argv[1]
offset = int(sys.argv[2]) if len(sys.argv) > 2 else 0
src = f"/tmp/wt/B-{area}/out"
for i in range(1, 9):
    if not os.path.exists(f"{src}/benign{i}.diff"):
        continue
    dst = f"/verif/benign/{area}-{i + offset}"
    os.makedirs(dst, exist_ok=True)
    shutil.copyfile(f"{src}/benign{i}.diff", f"{dst}/patch.diff")
    m = json.load(open(f"{src}/benign{i}.json"))
    meta = {"kind": "benign", "area": area, "property": AREAS[area][0], "properties": AREAS[area], "summary": m.get("summary"), "why_benign": m.get("why_benign"), "perturbs": m.get("perturbs"), "files": m.get("files"),
            "author": "independent sub-agent given only the property texts of the area and a scratch worktree"}
    json.dump(meta, open(f"{dst}/meta.json", "w"), indent=1)
    print("imported", dst)
