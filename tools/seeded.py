#!/usr/bin/env python3
"""Run checks against a seeded breaking change.

  tools/seeded.py <seeded-dir> [--props C01,C05] [--tier quick] [--seeds 1,2]

Applies <seeded-dir>/patch.diff to /repo (git apply), runs ./check for the property named in meta.json (or --props),
records verdicts in <seeded-dir>/result.json, then restores /repo (git checkout -- .) and the evidence files.
"""
import json, os, subprocess, sys, time

VERIF = os.path.dirname(os.path.dirname(os.path.abspath(__file__)))


def sh(cmd, **kw):
    return subprocess.run(cmd, shell=True, text=True, stdout=subprocess.PIPE, stderr=subprocess.STDOUT, **kw)


def main():
    d = os.path.abspath(sys.argv[1])
    args = sys.argv[2:]
    meta = json.load(open(os.path.join(d, "meta.json")))
    props = [meta["property"]]
    tier = "quick"
    seeds = [1]
    i = 0
    while i < len(args):
        if args[i] == "--props":
            props = args[i + 1].split(","); i += 2
        elif args[i] == "--tier":
            tier = args[i + 1]; i += 2
        elif args[i] == "--seeds":
            seeds = [int(x) for x in args[i + 1].split(",")]; i += 2
        else:
            raise SystemExit("bad arg " + args[i])
    st = sh("git -C /repo status --porcelain")
    if st.stdout.strip():
        raise SystemExit("/repo working tree is not clean:\n" + st.stdout)
    ap = sh(f"git -C /repo apply {os.path.join(d, 'patch.diff')}")
    if ap.returncode != 0:
        raise SystemExit("patch does not apply:\n" + ap.stdout)
    results = []
    run_tag = int(time.time())
    try:
        for p in props:
            for s in seeds:
                t = time.time()
                r = sh(f"./check {p} --tier {tier} --seed {s}", cwd=VERIF)
                sigs = [l.strip()[len("signature: "):] for l in r.stdout.splitlines() if l.strip().startswith("signature: ")]
                verdict = {0: "not-detected", 1: "DETECTED", 2: "inconclusive"}.get(r.returncode, f"rc={r.returncode}")
                results.append({"property": p, "tier": tier, "seed": s, "verdict": verdict, "signatures": sigs[:8], "wall_s": round(time.time() - t, 1), "run": run_tag,
                                "tail": r.stdout.splitlines()[-3:]})
                print(f"{os.path.basename(d)}: {p} seed={s} -> {verdict} {sigs[:3]}", flush=True)
    finally:
        sh("git -C /repo checkout -- .")
        for p in props:
            sh(f"git -C {VERIF} checkout -- evidence/{p}.json")
        sh(f"rm -f {VERIF}/replays/*.json")
    old = []
    rp = os.path.join(d, "result.json")
    if os.path.exists(rp):
        old = json.load(open(rp))
    json.dump(old + results, open(rp, "w"), indent=1)


if __name__ == "__main__":
    main()
