#!/usr/bin/env python3
"""mk_benign_prompt.py <area> : brief for an independent sub-agent that writes BEHAVIOUR-PRESERVING changes to the library
(refactorings that keep every property true but perturb everything the properties leave unspecified). They are used to test
that the checks stay silent on code where the properties hold. The brief contains the property records of the area and
nothing about the checks."""
import json, os, sys

VERIF = os.path.dirname(os.path.dirname(os.path.abspath(__file__)))
AREAS = {
    "store": ["C09", "C10", "C11"],
    "trackers": ["C01", "C02", "C03", "C04", "C05", "C06", "C20"],
    "visual": ["C12", "C13", "C15", "C17"],
    "numeric": ["C07", "C08", "C14", "C16", "C19"],
    "python": ["C18"],
}
area = sys.argv[1]
props = [json.loads(l) for l in open(os.path.join(VERIF, "properties.jsonl"))]
sel = [p for p in props if p["id"] in AREAS[area]]
text = "\n\n".join(f"### {p['id']} {p['title']}\nStatement: {p['statement']}\nQuantifier: {p['quantifier']['text']}\nAnchored in: {', '.join(p['anchors']['files'])}" for p in sel)

print(f"""You are helping to evaluate a verification framework for the Rust library insight-platform/Similari (multi-object tracking: SORT / VisualSORT trackers, Kalman filters, IoU / polygon clipping, NMS, a sharded threaded track store, Python bindings via pyo3).

Your scratch git worktree of the library is /tmp/wt/B-{area} (a detached worktree; work ONLY inside that directory; never touch, read or list /repo or /verif; never commit). The sandbox has no network: always pass --offline to cargo and use `export CARGO_NET_OFFLINE=true CARGO_TARGET_DIR=/tmp/wt/B-{area}/target`.

## Properties the library must keep satisfying

{text}

## Your task

Write FOUR independent BENIGN changes to the library source under /tmp/wt/B-{area}/src. A benign change
  * keeps EVERY property above true (a user relying on the statements notices nothing), compiles, and passes the existing suite (`cargo test --offline`, 81 tests; `store_tests::general_ops` and `baked_similarity` are timing sensitive - re-run before concluding),
  * but deliberately PERTURBS what the properties leave unspecified, as hard as you can, so that an over-strict checker would raise a false alarm. Good examples:
      - a different but equally valid order of results where order is not promised (iteration order of maps, order in which shard replies are consumed, order of the error stream, order of idle/wasted lists);
      - different thread timing: extra yields/sleeps of a few hundred microseconds between (never inside) critical sections, a different number of internal channels, replies sent in a different order, work split differently across workers;
      - different internal ids that are never promised (temporary candidate ids, internal counters that are not track ids), different hashing;
      - numerically equivalent formulas whose rounding differs in the last bits (reassociated sums, f64 intermediate instead of f32 or vice versa where the result is rounded the same way to within a few ulps, a different but exact algorithm for the same geometric quantity);
      - resolving EXACT ties differently where the statement says ties may go either way (equal weights, equal ranks, equal qualities);
      - different timing of internal garbage collection of expired tracks where the statement says it is unobservable;
      - different (but valid) internal capacity / buffering choices, different error message texts.
  * must NOT change anything a statement pins down (ids of simple trackers for the same history, epochs, lengths, which detections are grouped, thresholds and their >= / > sense, values beyond rounding noise of ~1e-6 relative, exactly-once delivery, no deadlock).
Earlier contributors already wrote benign changes of these kinds - yours must be DIFFERENT in site and kind: reply/dispatch order of the shard workers, sleeps between critical sections, sorted results, shared job queue for the voting threads, partial-snapshot rollback, reworded errors, `P - K^T(HP)` covariance update, polygon vertex start corner, f64 accumulation in distances, exact-tie breaking in NMS / Hungarian layout / gallery eviction, garbage collection timing, `hypot`/f64 intermediates in radius / IoU, Python lists sorted by id, polling `get()`. A second group wrote: distance replies streamed in chunks with a terminator message, shard tracks evaluated on the rayon pool, early exits in `merge_owned`, `Track::distances` with swapped loops, a solver fast path for uncontested assignments, an unbounded result channel, lazily allocated batch ids, block-wise covariance prediction, a closed-form intersection for unrotated pairs, NMS overlap rows precomputed in parallel, an iterator-style clipper, another exact area formula in the Python binding, a chunked thread-scoped vector filter, deterministic temporary candidate ids, best-fit weight as `votes*max - sum(d)`, own-area clipping that skips provably irrelevant neighbours, arrival-order galleries with eviction by selection.
Ideas for new kinds (correct versions of typical performance work are especially welcome): a cache or memo whose key covers EVERYTHING the value depends on and that is invalidated on every path; squared-quantity comparisons that are exactly equivalent; pre-filters that are provably exact (e.g. separating-axis tests that consider the rotation); per-thread id blocks that can never overlap; reuse of scratch buffers that are fully cleared; a group-by-key implemented with a sort or a BTreeMap instead of a HashMap; wide-id-safe integer arithmetic; waits skipped only when provably unnecessary. Further ideas: correct chunking / streaming of results in several messages with matching bookkeeping on the consumer side; extra worker threads or a thread pool used correctly; lazily versus eagerly computed derived data (vertex caches filled and invalidated correctly); a different but correct assignment solver path for tiny problems; bookkeeping moved between structs without changing behaviour; defensive copies; capacity pre-allocation; replacing recursion/iteration styles; replacing `HashMap` by `BTreeMap` (or vice versa) where order is not promised; different internal epoch representation with identical observable epochs; correct early exits that skip provably irrelevant work; float expressions rearranged within ~1e-7 relative.
Each change should be 5-40 changed lines and look like something a maintainer could plausibly commit. The four changes must be of four different kinds and touch different files where possible.

For each change i in 1..4 deliver in /tmp/wt/B-{area}/out/ (create it):
  * `benign<i>.diff` - `git diff` against the CLEAN tree (each an independent alternative, not stacked; must apply with `git apply`);
  * `benign<i>.json` - {{"summary": "<what was changed>", "why_benign": "<why every statement above still holds>", "perturbs": "<what unspecified behaviour it changes and which kind of over-strict check it would trip>", "files": ["src/..."], "suite_passes_with_change": true}}
Verify for each change that it compiles and the full suite passes (run it; re-run on the two flaky timing tests). Also build once with `RUSTFLAGS="--cfg similari_verif" cargo build --offline --no-default-features` to make sure the guarded instrumentation hooks in the source still compile with your change. Leave the worktree clean at the end (`git checkout -- src`), keeping only out/. Do not remove the target directory.

Final answer: a short report listing the four changes (one paragraph each) and the commands you ran.""")
