#!/usr/bin/env python3
"""import_seed.py Cxx i : copy /tmp/wt/Cxx/out/{mutation,demo,meta}<i> into /verif/seeded/Cxx-<i>/"""
import json, os, shutil, sys
p, i = sys.argv[1], sys.argv[2]
offset = int(sys.argv[3]) if len(sys.argv) > 3 else 0
src = f"/tmp/wt/{p}/out"
dst = f"/verif/seeded/{p}-{int(i) + offset}"
os.makedirs(dst, exist_ok=True)
shutil.copyfile(f"{src}/mutation{i}.diff", f"{dst}/patch.diff")
for ext in ("rs", "py"):
    if os.path.exists(f"{src}/demo{i}.{ext}"):
        shutil.copyfile(f"{src}/demo{i}.{ext}", f"{dst}/demo.{ext}")
m = json.load(open(f"{src}/meta{i}.json"))
meta = {"property": p, "breaks": m.get("summary"), "needs_to_manifest": m.get("needs"), "files": m.get("files"),
        "author": "independent sub-agent given only the property text and a scratch worktree",
        "agent_verification": {k: m.get(k) for k in ("demo_fails_with_change", "demo_passes_without_change", "suite_passes_with_change", "commands_run")}}
json.dump(meta, open(f"{dst}/meta.json", "w"), indent=1)
print("imported", dst)
