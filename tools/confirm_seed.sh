#!/bin/sh
# usage: confirm_seed.sh <Cxx> <i>   -> prints CONFIRMED / REJECTED with reasons; leaves the worktree clean
P=$1; I=$2; W=/tmp/wt/$P
export CARGO_NET_OFFLINE=true CARGO_TARGET_DIR=/tmp/wt/$P/target
cd $W || exit 2
git checkout -q -- src build.rs Cargo.toml 2>/dev/null; rm -rf tests; mkdir -p tests
if [ -f out/demo$I.rs ]; then cp out/demo$I.rs tests/demo$I.rs; KIND=rs; elif [ -f out/demo$I.py ]; then KIND=py; else echo "$P/$I REJECTED no demo"; exit 1; fi
run_demo() {
  if [ $KIND = rs ]; then
    timeout 900 cargo test --offline --no-default-features --test demo$I >/tmp/wt/$P/out/_demo$I.log 2>&1
  else
    timeout 900 cargo build --offline --lib --features python >/tmp/wt/$P/out/_demo$I.log 2>&1 && mkdir -p /tmp/wt/$P/_pymod && cp /tmp/wt/$P/target/debug/libsimilari.so /tmp/wt/$P/_pymod/similari.so && timeout 600 python3 out/demo$I.py /tmp/wt/$P/_pymod >>/tmp/wt/$P/out/_demo$I.log 2>&1
  fi
}
run_demo; clean_rc=$?
git apply out/mutation$I.diff || { echo "$P/$I REJECTED patch does not apply"; exit 1; }
run_demo; mut_rc=$?
rm -rf tests
suite_rc=1
for k in 1 2 3; do timeout 900 cargo test --offline >/tmp/wt/$P/out/_suite$I.log 2>&1; suite_rc=$?; [ $suite_rc = 0 ] && break; done
npass=$(grep -E "^test result: ok. 81 passed" /tmp/wt/$P/out/_suite$I.log | wc -l)
git checkout -q -- src build.rs Cargo.toml 2>/dev/null; rm -rf tests
if [ $clean_rc = 0 ] && [ $mut_rc != 0 ] && [ $suite_rc = 0 ] && [ $npass -ge 1 ]; then echo "$P/$I CONFIRMED (demo clean rc=$clean_rc, with change rc=$mut_rc, suite ok)"; else echo "$P/$I REJECTED (demo clean rc=$clean_rc, with change rc=$mut_rc, suite rc=$suite_rc 81ok=$npass)"; fi
