#!/usr/bin/env python3
"""mk_agent_prompt.py Cxx [round-hint] : prints the brief handed to an independent sub-agent that writes seeded
breaking changes for property Cxx.  The brief contains only the property record, the scratch-worktree mechanics and
one-line summaries of the changes earlier sub-agents already wrote for that property (so that the new ones differ in
kind) - nothing about the checks in /verif."""
import json, os, sys, glob

VERIF = os.path.dirname(os.path.dirname(os.path.abspath(__file__)))
pid = sys.argv[1]
hint = sys.argv[2] if len(sys.argv) > 2 else ""
prop = None
for l in open(os.path.join(VERIF, "properties.jsonl")):
    p = json.loads(l)
    if p["id"] == pid:
        prop = p
prior = []
for d in sorted(glob.glob(os.path.join(VERIF, "seeded", pid + "-*"))):
    try:
        m = json.load(open(os.path.join(d, "meta.json")))
        prior.append("- " + (m.get("breaks") or "")[:420].replace("\n", " "))
    except Exception:
        pass

HINTS = {
    "r7": """This round: both changes must look like ordinary MAINTENANCE work whose author believed behaviour was unchanged. Pick two DIFFERENT styles (and prefer sites that none of the earlier changes listed below touched):
  (A) a refactoring slip: a helper extracted / inlined / generalised with two same-typed parameters swapped, a loop rewritten as an iterator chain (zip truncating, skip/take off by one, rev in the wrong place, filter before instead of after enumerate), a match rewritten as if/else with one arm merged, a `?` introduced that now returns early past a later step;
  (B) an API modernisation: replacing a hand-written loop by a library call with subtly different semantics (sort_by_key vs sort_by, dedup, retain, HashMap entry API, Iterator::max_by returning the LAST maximum, min_by the first, f32::max ignoring NaN, clamp, rem_euclid vs %, abs_diff), swapping a container (HashMap <-> BTreeMap <-> Vec) where some code relied on the old order or on duplicate keys;
  (C) a "consistency" fix: making two similar code paths (simple vs batch tracker, Sort vs VisualSort, owned vs foreign query, predict vs predict_with_scene) share one implementation that is right for one of them only; unifying two constants / defaults / thresholds that were intentionally different; applying a conversion (normalise, clamp, round) "everywhere" including a place where the raw value is needed;
  (D) defensive programming that changes behaviour: an added validity check that rejects or silently skips a valid corner input, unwrap_or(default) replacing an error, saturating arithmetic replacing a checked one, an early return for an "impossible" case that is possible;
  (E) a dependency-style change inside the crate: changing a type (u64 -> u32/usize, f32 -> f64 and back, i64 custom ids), changing integer scaling constants, changing the hash / id generation scheme, with one conversion left behind.
The change must still need something specific to manifest (unusual input, long or oddly shaped history, particular interleaving, rare option) - avoid changes that any ordinary use exposes at once, and do not repeat the earlier changes' sites and triggers.""",
    "r6": """This round: both changes must be plausible PERFORMANCE OPTIMISATIONS - the most common source of subtle breakage in practice. Pick two DIFFERENT optimisation styles (and prefer sites that none of the earlier changes listed below touched):
  (s) caching / memoisation of a derived value (with an invalidation that misses one path), reuse of a buffer or object across calls or across scenes / tracks / threads;
  (t) skipping work that is "obviously" unnecessary (early exit, pre-filter, pruning, fast path for a common case) where the justification fails for an unusual but valid input;
  (u) batching / coalescing / deferring updates (apply at the end of the call, once per batch, lazily on next read) so that something reads a stale value in between;
  (v) parallelising or pipelining a step (splitting work across threads, overlapping two phases) with a missing ordering or a shared accumulator;
  (w) cheaper arithmetic (lower precision, integer keys, approximations, squared instead of rooted quantities, avoiding a division) that changes a decision in a narrow regime;
  (x) smaller data (truncating histories, dropping fields from clones or messages, capacity limits, bounded queues) that loses something needed later.
The change must still need something specific to manifest (unusual input, long or oddly shaped history, particular interleaving, rare option) - avoid changes that any ordinary use exposes at once, and do not repeat the earlier changes' sites and triggers.""",
    "r5": """Aim for changes chosen by MECHANISM (pick two DIFFERENT mechanisms, and prefer sites that none of the earlier changes listed below touched):
  (m) resource / shutdown / cleanup: Drop order, thread join, channel closing, a tracker or store dropped while results are outstanding, an iterator or result object dropped half-consumed;
  (n) arithmetic: usize subtraction or `len() - 1` on a path that can be empty, casts (`as u64`, `as i64`, `as usize`, f64 -> f32) that truncate or wrap for unusual values, saturating vs wrapping vs checked arithmetic, integer division rounding, accumulated float error over long runs;
  (o) ordering / comparison: `partial_cmp` fallbacks, sort stability (sort vs sort_unstable), sort key missing a component, min/max swapped for one operand order, dedup vs dedup_by_key, first vs last of equal elements;
  (p) collection semantics: HashMap insert overwriting an entry, entry API vs get+insert, retain / drain / truncate / split_off boundaries off by one, VecDeque front/back, iterating while the collection changes, Option::take leaving None behind;
  (q) copy / clone / default semantics: a field not carried over by a hand-written Clone / From / builder, a Default that differs from the documented default, a cached or derived field going stale, shallow sharing through Arc where a copy was intended;
  (r) concurrency: lock scope narrowed or widened, read lock where the write lock is needed for a check-then-act, a value read before the lock and used after, send before the state update, a shared counter read twice, a condition variable signalled without holding the mutex.
The change must still need something specific to manifest (unusual input, long or oddly shaped history, particular interleaving, rare option) - avoid changes that any ordinary use exposes at once.""",
    "r4": """Aim for changes of the following kinds (pick two DIFFERENT kinds, and prefer sites that none of the earlier changes listed below touched):
  (g) boundary conditions that are rarely hit: zero-length / exactly-full / first or last element, shard or worker count 1 versus > 1, max_idle_epochs = 0, history length 1, batch with one scene, a scene seen for the first time, empty detection list followed by a full one;
  (h) lifetime effects: behaviour after clear_wasted, after tracks were handed out by wasted(), after a scene was idle for a long time, after very many epochs, after a tracker was dropped and another created, usize / u64 / i64 conversions of ids, epochs or custom ids (negative, very large);
  (i) an API variant that shares code with the commonly used one but takes a different path: predict vs predict_with_scene (scene 0 vs other scenes), idle_tracks vs idle_tracks_with_scene, the batch API vs the simple API, into_iter() vs all(), owned vs foreign queries, builder vs direct constructor, `Option` arguments given as None;
  (j) the interplay of TWO configuration options or two inputs that are each fine alone (e.g. a constraint table together with max_idle, min votes together with max observations, score threshold together with missing scores, rotated and unrotated boxes in one call);
  (k) data dependent corners: custom_object_id None / negative, confidence at its extremes, angle None versus Some(0.0), extreme aspect ratios, features of different lengths in one gallery, quality None;
  (l) an invariant maintained in two places of which only one is updated (a cached count, a duplicated field, an index kept next to a map).
Avoid changes that any ordinary use (a tracker fed a few frames of well separated objects, or a single call of the function on a typical input) exposes at once.""",
    "r3": """Aim for changes of the following kinds (pick two DIFFERENT kinds):
  (a) two cooperating edits in different functions/files that each look harmless alone (e.g. a helper whose contract is subtly changed + a caller that relied on the old contract on one path only);
  (b) state that goes wrong only after a long or oddly shaped history (counters wrapping past a size, a cache that is invalidated on all paths but one, something that only happens after tracks were expired AND collected AND ids/slots reused, after a skip, after clear_wasted, after many merges);
  (c) a narrow numeric regime (values near a threshold or an epsilon, very large/small magnitudes, negative or >2*pi angles, zero/None fields, NaN-free but denormal-ish inputs, lengths at a block boundary);
  (d) dependence on a rarely used configuration option, constructor variant, builder default or rarely used public entry point of the same functionality;
  (e) for the concurrent parts: a window between two critical sections, a notification sent before the state change, a counter read outside the lock, a bounded queue, results consumed in a different order/thread than usual;
  (f) an error/rollback path that is wrong only for the 2nd..nth element, or only when the failure happens after a partial success.
Avoid changes that any ordinary use (a tracker fed a few frames of well separated objects, or a single call of the function on a typical input) exposes at once.""",
}

print(f"""You are helping to evaluate a verification framework for the Rust library insight-platform/Similari (multi-object tracking: SORT / VisualSORT trackers, Kalman filters, IoU / polygon clipping, NMS, a sharded threaded track store, Python bindings via pyo3).

Your scratch git worktree of the library is /tmp/wt/{pid} (a detached worktree of the repository; work ONLY inside that directory; never touch /repo or /verif, never commit, never push). The sandbox has no network: always pass --offline to cargo and use `export CARGO_NET_OFFLINE=true CARGO_TARGET_DIR=/tmp/wt/{pid}/target`.

## The property (this is all you get; read the code it is anchored in)

```json
{json.dumps(prop, indent=1)}
```

## Your task

Write TWO independent changes ("mutations") to the library source under /tmp/wt/{pid}/src, each of which
  1. BREAKS the property above (a user relying on the statement would be wrong with your change),
  2. still COMPILES and still PASSES the library's existing test suite unchanged (`cargo test --offline`, 81 tests; `store_tests::general_ops` and `baked_similarity` are timing sensitive and can flake when the machine is busy - re-run before concluding),
  3. looks like a plausible refactoring / optimisation / bug-fix a maintainer could have made (no `if input == magic` special cases, no dead-giveaway comments),
  4. needs something SPECIFIC to manifest - not something ordinary use would expose at once.
{HINTS.get(hint, HINTS['r3'])}

Changes that earlier contributors already wrote for this property - yours must differ from these IN KIND (different site AND different triggering condition):
{chr(10).join(prior) if prior else '- (none)'}

For each change i in {{1, 2}} deliver, in /tmp/wt/{pid}/out/ (create the directory):
  * `mutation<i>.diff` - `git diff` of the change against the clean worktree (only files under src/; must apply with `git apply` on the clean tree). The two mutations are independent alternatives, each a diff against the CLEAN tree, not stacked.
  * `demo<i>.rs` - a self-contained Rust integration test (it will be copied to `tests/demo<i>.rs` and run with `cargo test --offline --no-default-features --test demo<i>`), using only the public API of the crate `similari` (crate name in code: `similari`), that PASSES on the clean tree and FAILS with your change. If the demonstration is schedule dependent, make it loop / use sleeps so that it fails reliably (>= 9 of 10 runs) with the change and never on the clean tree. {'For this property a Python demonstration is also acceptable: `demo<i>.py`, run as `python3 demo<i>.py <dir containing similari.so>` after `cargo build --offline --lib --features python` (copy target/debug/libsimilari.so to similari.so); it must exit 0 on the clean tree and non-zero with the change.' if pid == 'C18' else ''}
  * `meta<i>.json` - {{"summary": "<what was changed and why it breaks the property>", "needs": "<exactly what is needed for it to manifest>", "files": ["src/..."], "demo_fails_with_change": true, "demo_passes_without_change": true, "suite_passes_with_change": true, "commands_run": ["..."]}}

Verify all three claims yourself by actually running the commands (demo on clean tree passes; demo with change fails; full suite with change passes). Leave the worktree clean at the end (`git checkout -- src`, remove tests/demo*.rs), keeping only out/. Do NOT remove the target directory.

Practicalities: first build takes ~1-2 min. The `tests/` directory does not exist in the repo; create it for your demo and remove it afterwards. Use `--no-default-features` for the Rust demos (avoids linking Python). Do not edit existing tests. Keep each mutation small (typically < 40 changed lines).

Final answer: a short report - for each mutation: one-paragraph summary, what it needs to manifest, and the exact commands + observed results of your three verifications.""")
