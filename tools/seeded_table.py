#!/usr/bin/env python3
"""Regenerates the seeded-change table in DESIGN.md (between the markers) from seeded/*/meta.json + result.json."""
import json, glob, os, re
rows = []
for d in sorted(glob.glob('/verif/seeded/C*-*'), key=lambda x: (x.split('/')[-1].split('-')[0], int(x.split('-')[-1]))):
    name = os.path.basename(d)
    meta = json.load(open(d + '/meta.json'))
    res = json.load(open(d + '/result.json')) if os.path.exists(d + '/result.json') else []
    own_all = [r for r in res if r['property'] == meta['property']]
    last = max((r.get('run', 0) for r in own_all), default=0)
    own = [r for r in own_all if r.get('run', 0) == last]
    earlier_missed = any(r['verdict'] == 'not-detected' for r in own_all if r.get('run', 0) != last)
    verdicts = ', '.join(f"seed {r['seed']}: {r['verdict']}" for r in own) or '-'
    if not own and os.path.exists(d + '/slot_result.json'):
        # not (yet) run against /repo itself: the latest run in a scratch worktree (tools/seeded_slot.py), marked as such
        sl = [r for r in json.load(open(d + '/slot_result.json')) if r['property'] == meta['property'] and r.get('tier', 'quick') == 'quick']
        if sl:
            own = [sl[-1]]
            earlier_missed = any(r['verdict'] != 'DETECTED' for r in sl[:-1])
            verdicts = f"seed {sl[-1]['seed']}: {sl[-1]['verdict']} (scratch worktree)"
    if earlier_missed:
        verdicts += ' (missed before the checks were strengthened)'
    sig = next((r['signatures'][0] for r in own if r['signatures']), '')
    what = (meta.get('breaks') or '').replace('|', '/').replace('\n', ' ')
    what = what[:150] + ('…' if len(what) > 150 else '')
    needs = (meta.get('needs_to_manifest') or '').replace('|', '/').replace('\n', ' ')
    needs = needs[:110] + ('…' if len(needs) > 110 else '')
    rows.append(f"| {name} | {what} | {needs} | {verdicts} | `{sig}` |")
table = "<!-- SEEDED-TABLE-BEGIN -->\n| change | what it breaks | needs | `./check <own property> --tier quick` | first signature |\n|---|---|---|---|---|\n" + "\n".join(rows) + "\n<!-- SEEDED-TABLE-END -->"
p = '/verif/DESIGN.md'
s = open(p).read()
if 'RESULT_TABLE_PLACEHOLDER' in s:
    s = s.replace('RESULT_TABLE_PLACEHOLDER', table)
else:
    s = re.sub(r"<!-- SEEDED-TABLE-BEGIN -->.*<!-- SEEDED-TABLE-END -->", lambda m: table, s, flags=re.S)
open(p, 'w').write(s)
print(len(rows), "rows")
