#!/bin/sh
# usage: intake.sh <Cxx> <offset> : confirm both round mutations of /tmp/wt/Cxx/out and import the confirmed ones as seeded/Cxx-<i+offset>
P=$1; OFF=${2:-4}
cd /verif
for I in 1 2; do
  r=$(tools/confirm_seed.sh $P $I 2>&1 | tail -1); echo "$r"
  case "$r" in *CONFIRMED*) python3 tools/import_seed.py $P $I $OFF;; esac
done
