#!/usr/bin/env python3
"""Run checks against seeded changes in scratch slots, leaving /repo untouched (development triage; the table in
DESIGN.md is produced by tools/seeded.py, which applies the change to /repo itself).

  tools/seeded_slot.py [--slots K] [--tier quick] [--seeds 1,2] [--props C01,..] <seeded-dir>...

A slot is /tmp/sw/slot<k>/{repo (detached worktree of /repo HEAD), verif (copy of /verif's machinery with the harness
path dependency pointed at the slot's repo), target}.  Results are appended to <seeded-dir>/slot_result.json (not the
result.json that the table is generated from)."""
import json, os, subprocess, sys, time, shutil, threading, queue

VERIF = os.path.dirname(os.path.dirname(os.path.abspath(__file__)))
ROOT = "/tmp/sw"


def sh(cmd, **kw):
    return subprocess.run(cmd, shell=True, text=True, stdout=subprocess.PIPE, stderr=subprocess.STDOUT, **kw)


def prepare_slot(k):
    d = f"{ROOT}/slot{k}"
    os.makedirs(d, exist_ok=True)
    repo = f"{d}/repo"
    if not os.path.isdir(repo):
        r = sh(f"git -C /repo worktree add --detach {repo} HEAD")
        if r.returncode != 0:
            raise SystemExit(r.stdout)
    else:
        sh(f"git -C {repo} checkout -q --detach $(git -C /repo rev-parse HEAD) && git -C {repo} checkout -q -- . && git -C {repo} clean -fdq")
    v = f"{d}/verif"
    os.makedirs(v, exist_ok=True)
    sh(f"rsync -a --delete --exclude target --exclude .git --exclude seeded --exclude replays --exclude evidence {VERIF}/ {v}/")
    os.makedirs(f"{v}/evidence", exist_ok=True)
    os.makedirs(f"{v}/replays", exist_ok=True)
    ct = open(f"{v}/harness/Cargo.toml").read().replace('path = "/repo"', f'path = "{repo}"')
    open(f"{v}/harness/Cargo.toml", "w").write(ct)
    return d


def run_one(k, sd, props, tier, seeds):
    d = f"{ROOT}/slot{k}"
    repo, v = f"{d}/repo", f"{d}/verif"
    sh(f"git -C {repo} checkout -q -- . && git -C {repo} clean -fdq")
    pf = os.path.join(sd, 'patch.diff')
    ap = sh(f"git -C {repo} apply {pf}") if os.path.exists(pf) and os.path.getsize(pf) > 0 else sh("true")
    if ap.returncode != 0:
        print(f"{os.path.basename(sd)}: patch does not apply: {ap.stdout}", flush=True)
        return
    meta = json.load(open(os.path.join(sd, "meta.json")))
    ps = props or meta.get("properties") or [meta["property"]]
    results = []
    env = dict(os.environ)
    env["VERIF_REPO"] = repo
    for p in ps:
        for s in seeds:
            t = time.time()
            r = sh(f"./check {p} --tier {tier} --seed {s}", cwd=v, env=env)
            sigs = [l.strip()[len("signature: "):] for l in r.stdout.splitlines() if l.strip().startswith("signature: ")]
            verdict = {0: "not-detected", 1: "DETECTED", 2: "inconclusive"}.get(r.returncode, f"rc={r.returncode}")
            results.append({"property": p, "tier": tier, "seed": s, "verdict": verdict, "signatures": sigs[:8],
                            "wall_s": round(time.time() - t, 1), "tail": r.stdout.splitlines()[-3:], "mode": "slot"})
            print(f"{os.path.basename(sd)}: {p} seed={s} -> {verdict} {sigs[:3]}" + ("" if r.returncode != 2 else " | " + " ".join(r.stdout.splitlines()[-2:])[:300]), flush=True)
    sh(f"git -C {repo} checkout -q -- . && git -C {repo} clean -fdq")
    rp = os.path.join(sd, "slot_result.json")
    old = json.load(open(rp)) if os.path.exists(rp) else []
    json.dump(old + results, open(rp, "w"), indent=1)


def main():
    args = sys.argv[1:]
    slots, tier, seeds, props, dirs = 3, "quick", [1], None, []
    i = 0
    while i < len(args):
        a = args[i]
        if a == "--slots":
            slots = int(args[i + 1]); i += 2
        elif a == "--tier":
            tier = args[i + 1]; i += 2
        elif a == "--seeds":
            seeds = [int(x) for x in args[i + 1].split(",")]; i += 2
        elif a == "--props":
            props = args[i + 1].split(","); i += 2
        elif a == "--cleanup":
            for k in range(16):
                if os.path.isdir(f"{ROOT}/slot{k}/repo"):
                    sh(f"git -C /repo worktree remove --force {ROOT}/slot{k}/repo")
            shutil.rmtree(ROOT, ignore_errors=True)
            sh("git -C /repo worktree prune")
            return
        else:
            dirs.append(os.path.abspath(a)); i += 1
    slots = min(slots, max(1, len(dirs)))
    q = queue.Queue()
    for d in dirs:
        q.put(d)

    def worker(k):
        prepare_slot(k)
        while True:
            try:
                sd = q.get_nowait()
            except queue.Empty:
                return
            run_one(k, sd, props, tier, seeds)

    base = int(os.environ.get("SLOT_BASE", "0"))
    ts = [threading.Thread(target=worker, args=(base + k,)) for k in range(slots)]
    for t in ts:
        t.start()
    for t in ts:
        t.join()


if __name__ == "__main__":
    main()
