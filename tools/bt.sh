#!/bin/sh
# usage: bt.sh <binary> [args...] : run for N s, then dump compact thread backtraces
bin=$1; shift
/verif/target/native/debug/$bin "$@" > /tmp/bt_out.txt 2>&1 &
pid=$!
sleep ${BT_SLEEP:-15}
if kill -0 $pid 2>/dev/null; then
  gdb -p $pid -batch -ex "thread apply all bt 30" 2>/dev/null | grep -E "^Thread|#[0-9]+ " | grep -E "^Thread|similari::|vh::|c[0-9][0-9]::|Condvar|Mutex|RwLock|recv|send|join" | sed -E 's/<[^()]*>//g; s/\(.*\) at / at /' | cut -c1-160
  kill -9 $pid
else
  echo "process finished"; tail -5 /tmp/bt_out.txt
fi
