#!/bin/sh
# setup_cmd: build every native monitor binary from files on disk only (offline).
set -e
cd "$(dirname "$0")"
export CARGO_NET_OFFLINE=true
export RUSTFLAGS="--cfg similari_verif"
cargo build --offline --manifest-path harness/Cargo.toml --target-dir target/native --bins
echo "setup ok"
