"""Per-property run configuration for ./check (shards, tiers, floors, extra engines)."""

PROPS = {
    "C16": {
        "quick": {"shards": 8, "timeout_s": 600, "floors": {"distinct_nontrivial": 1000, "lengths_covered": 131}},
        "thorough": {"shards": 16, "timeout_s": 3000, "floors": {"distinct_nontrivial": 100000, "lengths_covered": 131},
                     "engines": ["miri:c16"]},
    },
    "C19": {
        "quick": {"shards": 8, "timeout_s": 600, "floors": {"distinct_nontrivial": 1000, "eq_expected_equal": 1000, "eq_expected_unequal": 1000}},
        "thorough": {"shards": 16, "timeout_s": 3000, "floors": {"distinct_nontrivial": 100000}},
    },
    "C08": {
        "quick": {"shards": 8, "timeout_s": 900, "floors": {"distinct_nontrivial": 20000, "clearly_apart": 1000, "too_far_true": 1000, "closed_form_compared": 1000, "rigid_motion_checked": 1000, "identical_checked": 1000, "stale_cache_cases/rotate_mut": 5000, "stale_cache_cases/field-writes": 5000}},
        "thorough": {"shards": 16, "timeout_s": 3000, "floors": {"distinct_nontrivial": 1000000}},
    },
    "C14": {
        "quick": {"shards": 8, "timeout_s": 900, "floors": {"distinct_nontrivial": 3000, "boxes_dropped_by_suppression": 10000, "boxes_filtered": 1000}},
        "thorough": {"shards": 16, "timeout_s": 3000, "floors": {"distinct_nontrivial": 100000}},
    },
    "C15": {
        "crash_signature": "C15/process-abort",
        "quick": {"shards": 8, "timeout_s": 900, "floors": {"distinct_nontrivial": 1500, "exact_grid_references": 2000, "order_checks": 1000, "boxes_fully_covered": 50, "boxes_overlapping_nothing": 200, "tracker_recorded_shares_checked": 1000}},
        "thorough": {"shards": 16, "timeout_s": 3000, "floors": {"distinct_nontrivial": 50000}},
    },
    "C17": {
        "quick": {"shards": 8, "timeout_s": 900, "floors": {"distinct_nontrivial": 1000, "streams_run_in_all_permutations": 300, "permuted_executions": 100000, "hungarian_cases_where_greedy_is_suboptimal": 100}},
        "thorough": {"shards": 16, "timeout_s": 3000, "floors": {"distinct_nontrivial": 50000}},
    },
    "C07": {
        "quick": {"shards": 8, "timeout_s": 900, "floors": {"distinct_nontrivial": 300, "box_steps_compared": 50000, "point_steps_compared": 50000, "cost_grid_points": 10000, "stationary_checks": 300}},
        "thorough": {"shards": 16, "timeout_s": 3000, "floors": {"distinct_nontrivial": 15000}},
    },
    "C11": {
        "level": "fault_enumeration",
        "quick": {"shards": 8, "timeout_s": 900, "floors": {"distinct_nontrivial": 1500, "fault_positions": 5000, "fault_runs/update.apply": 300, "fault_runs/attributes.merge": 300, "fault_runs/metric.optimize": 1000}},
        "thorough": {"shards": 16, "timeout_s": 3000, "floors": {"distinct_nontrivial": 50000}},
    },
    "C09": {
        "quick": {"shards": 8, "timeout_s": 900, "floors": {"distinct_nontrivial": 5000, "steps_compared": 50000, "ret/add_track/duplicate-rejected": 100, "ret/merge_owned/err": 100, "ret/merge_external/err": 100, "add_missing_vs_external_build_compared": 100, "abstract_states": 500}},
        "thorough": {"shards": 16, "timeout_s": 3400, "floors": {"distinct_nontrivial": 200000}, "engines": ["miri:c09", "tsan:c09"]},
    },
    "C10": {
        "replay_repeat": 20,
        "quick": {"shards": 8, "timeout_s": 900, "floors": {"distinct_nontrivial": 150, "gated_executions": 1000, "delayed_executions": 500, "order_signatures": 50, "scenarios_with_class_missing_errors": 20}},
        "thorough": {"shards": 16, "timeout_s": 3400, "floors": {"distinct_nontrivial": 5000}, "engines": ["miri:c10", "tsan:c10"]},
    },
    "C01": {
        "quick": {"shards": 8, "timeout_s": 900, "floors": {"distinct_nontrivial": 300, "calls": 2000, "continuations": 3000, "new_tracks": 500, "empty_calls": 20, "stored_tracks_cross_checked": 3000}},
        "thorough": {"shards": 16, "timeout_s": 3400, "floors": {"distinct_nontrivial": 20000}},
    },
    "C03": {
        "quick": {"shards": 8, "timeout_s": 900, "floors": {"distinct_nontrivial": 40, "expired_tracks": 100, "tracks_handed_out": 100, "calls_with_expired_tracks_still_in_live_store": 20, "idle_tracks_listed": 50, "tracks_cleared": 10, "gc_timing_variants_compared": 50, "steps_checked": 3000}},
        "thorough": {"shards": 16, "timeout_s": 3400, "floors": {"distinct_nontrivial": 3000}},
    },
    "C02": {
        "quick": {"shards": 8, "timeout_s": 900, "floors": {"distinct_nontrivial": 1000, "layerA_exhaustive_matrices": 1900000, "layerB_calls_decided": 3000, "layerB_calls_where_greedy_is_suboptimal": 100, "layerB_gated_pairs": 5000}},
        "thorough": {"shards": 16, "timeout_s": 3400, "floors": {"distinct_nontrivial": 20000, "layerB_calls_where_greedy_is_suboptimal": 5000}},
    },
    "C12": {
        "quick": {"shards": 8, "timeout_s": 900, "floors": {"distinct_nontrivial": 300, "calls_decided": 2000, "appearance_contests": 100, "visual_attachments": 500, "positional_stage_checked": 1000}},
        "thorough": {"shards": 16, "timeout_s": 3400, "floors": {"distinct_nontrivial": 20000, "appearance_contests": 5000}},
    },
    "C13": {
        "quick": {"shards": 8, "timeout_s": 900, "floors": {"distinct_nontrivial": 300, "track_updates_checked": 5000, "galleries_checked": 2000, "evictions_checked": 300, "features_rejected_by_collect_thresholds": 100, "wasted_conversions_checked": 20}},
        "thorough": {"shards": 16, "timeout_s": 3400, "floors": {"distinct_nontrivial": 20000}},
    },
    "C20": {
        "quick": {"shards": 8, "timeout_s": 900, "floors": {"distinct_nontrivial": 100000, "tables": 142000, "probes": 10000000, "tables_with_a_repeated_gap": 1000, "constrained_attachments_checked": 1000, "calls_where_constraints_changed_the_outcome": 50, "unconstrained_vs_loose_calls_compared": 2000}},
        "thorough": {"shards": 16, "timeout_s": 3400, "floors": {"distinct_nontrivial": 140000, "calls_where_constraints_changed_the_outcome": 2000}},
    },
    "C04": {
        "ratio_ceilings": {"tie_divergences": ["projected_calls_compared", 0.001]},
        "quick": {"shards": 8, "timeout_s": 900, "floors": {"distinct_nontrivial": 200, "projected_calls_compared": 3000, "histories_with_scenes_in_the_same_region": 40}},
        "thorough": {"shards": 16, "timeout_s": 3400, "floors": {"distinct_nontrivial": 8000}},
    },
    "C05": {
        "ratio_ceilings": {"tie_divergences": ["calls_compared", 0.001]},
        "quick": {"shards": 8, "timeout_s": 1200, "floors": {"distinct_nontrivial": 500, "calls_compared": 20000, "chunk_arrival_order_signatures": 100}},
        "thorough": {"shards": 16, "timeout_s": 3400, "floors": {"distinct_nontrivial": 20000}, "engines": ["miri:c05", "tsan:c05"]},
    },
    "C06": {
        "ratio_ceilings": {"tie_divergences": ["scene_calls_compared_with_simple_tracker", 0.001], "grouping_divergences_in_consumer_mode_unexplained": ["scene_calls_compared_with_simple_tracker", 0.001]},
        "quick": {"shards": 8, "timeout_s": 1200, "floors": {"distinct_nontrivial": 60, "batches_checked": 500, "scene_calls_compared_with_simple_tracker": 1500, "hook_order_signatures": 60, "discipline/consumer-thread": 20, "schedule/stall:vote.result.send": 5, "schedule/stall:vote.monitor.dec": 5, "schedule/stall:batch.scene.dispatched": 5}},
        "thorough": {"shards": 16, "timeout_s": 3400, "floors": {"distinct_nontrivial": 3000}, "engines": ["miri:c06", "tsan:c06"]},
    },
    "C18": {
        "prebuild": ["pymodule"],
        "quick": {"shards": 8, "timeout_s": 1200, "floors": {"api/BatchSort.new": 1, "api/BatchSort.predict": 1, "api/BatchVisualSort.new": 1, "api/BatchVisualSort.predict": 1, "api/BoundingBox.as_xyaah": 1, "api/BoundingBox.getters": 1, "api/BoundingBox.new": 1, "api/BoundingBox.new_with_confidence": 1, "api/BoundingBox.setters": 1, "api/Point2DKalmanFilter.calculate_cost": 1, "api/Point2DKalmanFilter.distance": 1, "api/Point2DKalmanFilter.initiate": 1, "api/Point2DKalmanFilter.new": 1, "api/Point2DKalmanFilter.predict": 1, "api/Point2DKalmanFilter.update": 1, "api/Point2DKalmanFilterState.x/y": 1, "api/Polygon.get_points": 1, "api/PositionalMetricType.iou": 1, "api/PositionalMetricType.maha": 1, "api/PredictionBatchResult.batch_size": 1, "api/PredictionBatchResult.get": 1, "api/PredictionBatchResult.ready": 1, "api/Sort.new": 1, "api/Sort.predict": 1, "api/Sort.predict_with_scene": 1, "api/SortPredictionBatchRequest.add": 1, "api/SortPredictionBatchRequest.new": 1, "api/SortTrack.getters": 1, "api/SortTrack.voting_type": 1, "api/SpatioTemporalConstraints.add_constraints": 1, "api/SpatioTemporalConstraints.new": 1, "api/SpatioTemporalConstraints.validate": 1, "api/Universal2DBox.area": 1, "api/Universal2DBox.as_ltwh": 1, "api/Universal2DBox.gen_vertices": 1, "api/Universal2DBox.get_radius": 1, "api/Universal2DBox.get_vertices": 1, "api/Universal2DBox.getters": 1, "api/Universal2DBox.ltwh": 1, "api/Universal2DBox.ltwh_with_confidence": 1, "api/Universal2DBox.new": 1, "api/Universal2DBox.new_with_confidence": 1, "api/Universal2DBox.rotate": 1, "api/Universal2DBox.setters": 1, "api/Universal2DBoxKalmanFilter.calculate_cost": 1, "api/Universal2DBoxKalmanFilter.distance": 1, "api/Universal2DBoxKalmanFilter.initiate": 1, "api/Universal2DBoxKalmanFilter.new": 1, "api/Universal2DBoxKalmanFilter.predict": 1, "api/Universal2DBoxKalmanFilter.update": 1, "api/Universal2DBoxKalmanFilterState.bbox": 1, "api/Universal2DBoxKalmanFilterState.universal_bbox": 1, "api/Vec2DKalmanFilter.calculate_cost": 1, "api/Vec2DKalmanFilter.distance": 1, "api/Vec2DKalmanFilter.initiate": 1, "api/Vec2DKalmanFilter.new": 1, "api/Vec2DKalmanFilter.predict": 1, "api/Vec2DKalmanFilter.update": 1, "api/VisualSort.new": 1, "api/VisualSort.predict": 1, "api/VisualSort.predict_with_scene": 1, "api/VisualSortMetricType.cosine": 1, "api/VisualSortMetricType.euclidean": 1, "api/VisualSortObservation.new": 1, "api/VisualSortObservationSet.add": 1, "api/VisualSortObservationSet.new": 1, "api/VisualSortOptions.__repr__": 1, "api/VisualSortOptions.kalman_position_weight": 1, "api/VisualSortOptions.kalman_velocity_weight": 1, "api/VisualSortOptions.kept_history_length": 1, "api/VisualSortOptions.max_idle_epochs": 1, "api/VisualSortOptions.new": 1, "api/VisualSortOptions.positional_metric": 1, "api/VisualSortOptions.positional_min_confidence": 1, "api/VisualSortOptions.spatio_temporal_constraints": 1, "api/VisualSortOptions.visual_max_observations": 1, "api/VisualSortOptions.visual_metric": 1, "api/VisualSortOptions.visual_min_votes": 1, "api/VisualSortOptions.visual_minimal_area": 1, "api/VisualSortOptions.visual_minimal_own_area_percentage_collect": 1, "api/VisualSortOptions.visual_minimal_own_area_percentage_use": 1, "api/VisualSortOptions.visual_minimal_quality_collect": 1, "api/VisualSortOptions.visual_minimal_quality_use": 1, "api/VisualSortOptions.visual_minimal_track_length": 1, "api/VisualSortPredictionBatchRequest.add": 1, "api/VisualSortPredictionBatchRequest.new": 1, "api/VisualSortPredictionBatchRequest.prediction": 1, "api/WastedSortTrack.getters": 1, "api/WastedVisualSortTrack.getters": 1, "api/bsort.clear_wasted": 1, "api/bsort.current_epoch": 1, "api/bsort.current_epoch_with_scene": 1, "api/bsort.idle_tracks": 1, "api/bsort.shard_stats": 1, "api/bsort.skip_epochs": 1, "api/bsort.skip_epochs_for_scene": 1, "api/bsort.wasted": 1, "api/bvsort.clear_wasted": 1, "api/bvsort.current_epoch": 1, "api/bvsort.current_epoch_with_scene": 1, "api/bvsort.idle_tracks": 1, "api/bvsort.shard_stats": 1, "api/bvsort.skip_epochs": 1, "api/bvsort.skip_epochs_for_scene": 1, "api/bvsort.wasted": 1, "api/intersection_area": 1, "api/nms": 1, "api/sort.clear_wasted": 1, "api/sort.current_epoch": 1, "api/sort.current_epoch_with_scene": 1, "api/sort.idle_tracks": 1, "api/sort.idle_tracks_with_scene": 1, "api/sort.shard_stats": 1, "api/sort.skip_epochs": 1, "api/sort.skip_epochs_for_scene": 1, "api/sort.wasted": 1, "api/sutherland_hodgman_clip": 1, "api/version": 1, "api/vsort.clear_wasted": 1, "api/vsort.current_epoch": 1, "api/vsort.current_epoch_with_scene": 1, "api/vsort.idle_tracks": 1, "api/vsort.idle_tracks_with_scene": 1, "api/vsort.shard_stats": 1, "api/vsort.skip_epochs": 1, "api/vsort.skip_epochs_for_scene": 1, "api/vsort.wasted": 1, "distinct_nontrivial": 100, "steps_compared": 5000, "records_with_visual_voting": 40}},
        "thorough": {"shards": 16, "timeout_s": 3400, "floors": {"distinct_nontrivial": 4000}, "engines": ["valgrind:c18"]},
    },
}
