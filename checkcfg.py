"""Per-property run configuration for ./check (shards, tiers, floors, extra engines)."""

PROPS = {
    "C16": {
        "quick": {"shards": 8, "timeout_s": 600, "floors": {"distinct_nontrivial": 1000, "lengths_covered": 131}},
        "thorough": {"shards": 16, "timeout_s": 3000, "floors": {"distinct_nontrivial": 100000, "lengths_covered": 131},
                     "engines": ["miri:c16"]},
    },
}
