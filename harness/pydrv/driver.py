#!/usr/bin/env python3
"""C18 driver: executes JSON API scripts through the `similari` Python module and prints one JSON trace per script.

usage: driver.py <module_dir> <scripts.json> <traces.json>
A script is a list of steps [op, out_var, args...]; the trace is the list of values the steps produced.
The same scripts are interpreted by the Rust driver (harness/src/bin/c18.rs) against the wrapped Rust API.
"""
import json, sys, re

sys.path.insert(0, sys.argv[1])
import similari as S  # noqa: E402

COVER = {}


def cov(name):
    COVER[name] = COVER.get(name, 0) + 1


def ubox(u):
    cov("Universal2DBox.getters")
    return [u.xc, u.yc, u.angle, u.aspect, u.height, u.confidence]


def bbox(b):
    cov("BoundingBox.getters")
    return [b.left, b.top, b.width, b.height, b.confidence]


def vt(v):
    cov("SortTrack.voting_type")
    m = re.search(r"(Visual|Positional)", repr(v))
    return m.group(1) if m else repr(v)


def track(t):
    cov("SortTrack.getters")
    return {"id": t.id, "epoch": t.epoch, "predicted": ubox(t.predicted_bbox), "observed": ubox(t.observed_bbox), "scene": t.scene_id,
            "length": t.length, "voting": vt(t.voting_type), "custom": t.custom_object_id}


def wasted(t, visual):
    cov("WastedVisualSortTrack.getters" if visual else "WastedSortTrack.getters")
    d = {"id": t.id, "epoch": t.epoch, "predicted": ubox(t.predicted_bbox), "observed": ubox(t.observed_bbox), "scene": t.scene_id,
         "length": t.length, "predicted_boxes": [ubox(x) for x in t.predicted_boxes], "observed_boxes": [ubox(x) for x in t.observed_boxes]}
    if visual:
        d["observed_features"] = t.observed_features
    return d


def squash(s):
    return re.sub(r"\s+", "", s).replace(",}", "}").replace(",)", ")").replace(",]", "]")


def canon(idmap, key, i):
    m = idmap.setdefault(key, {})
    if i not in m:
        m[i] = len(m) + 1
    return m[i]


def run(script):
    V = {}
    trace = []
    idmap = {}
    LASTREQ = {}

    def mk_metric(m):
        if m is None:
            return None
        if m[0] == "maha":
            cov("PositionalMetricType.maha")
            return S.PositionalMetricType.maha()
        cov("PositionalMetricType.iou")
        return S.PositionalMetricType.iou(m[1])

    for step in script:
        op, out, a = step[0], step[1], step[2:]
        r = None
        try:
            if op == "bb_new":
                cov("BoundingBox.new"); V[out] = S.BoundingBox(*a)
            elif op == "bb_new_conf":
                cov("BoundingBox.new_with_confidence"); V[out] = S.BoundingBox.new_with_confidence(*a)
            elif op == "bb_get":
                r = bbox(V[a[0]])
            elif op == "bb_set":
                cov("BoundingBox.setters"); setattr(V[a[0]], a[1], a[2]); r = bbox(V[a[0]])
            elif op == "bb_as_xyaah":
                cov("BoundingBox.as_xyaah"); V[out] = V[a[0]].as_xyaah(); r = ubox(V[out])
            elif op == "u_new":
                cov("Universal2DBox.new"); V[out] = S.Universal2DBox(*a)
            elif op == "u_new_kw":
                cov("Universal2DBox.new"); V[out] = S.Universal2DBox(xc=a[0], yc=a[1], angle=a[2], aspect=a[3], height=a[4])
            elif op == "u_new_conf":
                cov("Universal2DBox.new_with_confidence"); V[out] = S.Universal2DBox.new_with_confidence(*a)
            elif op == "u_ltwh":
                cov("Universal2DBox.ltwh"); V[out] = S.Universal2DBox.ltwh(*a)
            elif op == "u_ltwh_conf":
                cov("Universal2DBox.ltwh_with_confidence"); V[out] = S.Universal2DBox.ltwh_with_confidence(*a)
            elif op == "u_get":
                r = ubox(V[a[0]])
            elif op == "u_set":
                cov("Universal2DBox.setters"); setattr(V[a[0]], a[1], a[2]); r = ubox(V[a[0]])
            elif op == "u_rotate":
                cov("Universal2DBox.rotate"); V[a[0]].rotate(a[1]); r = ubox(V[a[0]])
            elif op == "u_radius":
                cov("Universal2DBox.get_radius"); r = V[a[0]].get_radius()
            elif op == "u_area":
                cov("Universal2DBox.area"); r = V[a[0]].area()
            elif op == "u_as_ltwh":
                cov("Universal2DBox.as_ltwh")
                try:
                    r = bbox(V[a[0]].as_ltwh())
                except Exception:
                    r = "error"
            elif op == "u_gen_vertices":
                cov("Universal2DBox.gen_vertices"); V[a[0]].gen_vertices(); r = ubox(V[a[0]])
            elif op == "u_vertices":
                cov("Universal2DBox.get_vertices"); cov("Polygon.get_points"); r = [list(p) for p in V[a[0]].get_vertices().get_points()]
            elif op == "nms":
                cov("nms"); r = [ubox(x) for x in S.nms([(V[v], s) for v, s in a[0]], a[1], a[2])]
            elif op == "nms_kw":
                cov("nms"); r = [ubox(x) for x in S.nms(detections=[(V[v], s) for v, s in a[0]], nms_threshold=a[1], score_threshold=a[2])]
            elif op == "clip":
                cov("sutherland_hodgman_clip"); cov("Polygon.get_points"); r = [list(p) for p in S.sutherland_hodgman_clip(V[a[0]], V[a[1]]).get_points()]
            elif op == "intersection_area":
                cov("intersection_area"); r = S.intersection_area(V[a[0]], V[a[1]])
            elif op == "version":
                cov("version"); r = S.version()
            # ---- Kalman
            elif op == "kfb_new":
                cov("Universal2DBoxKalmanFilter.new"); V[out] = S.Universal2DBoxKalmanFilter(*a)
            elif op == "kfb_new_kw":
                cov("Universal2DBoxKalmanFilter.new"); V[out] = S.Universal2DBoxKalmanFilter(position_weight=a[0], velocity_weight=a[1])
            elif op == "kfb_initiate":
                cov("Universal2DBoxKalmanFilter.initiate"); V[out] = V[a[0]].initiate(V[a[1]])
            elif op == "kfb_predict":
                cov("Universal2DBoxKalmanFilter.predict"); V[out] = V[a[0]].predict(V[a[1]])
            elif op == "kfb_update":
                cov("Universal2DBoxKalmanFilter.update"); V[out] = V[a[0]].update(V[a[1]], V[a[2]])
            elif op == "kfb_distance":
                cov("Universal2DBoxKalmanFilter.distance"); r = V[a[0]].distance(V[a[1]], V[a[2]])
            elif op == "kfb_cost":
                cov("Universal2DBoxKalmanFilter.calculate_cost"); r = S.Universal2DBoxKalmanFilter.calculate_cost(a[0], a[1])
            elif op == "kfb_state_ubox":
                cov("Universal2DBoxKalmanFilterState.universal_bbox"); r = ubox(V[a[0]].universal_bbox())
            elif op == "kfb_state_bbox":
                cov("Universal2DBoxKalmanFilterState.bbox")
                try:
                    r = bbox(V[a[0]].bbox())
                except Exception:
                    r = "error"
            elif op == "kfp_new":
                cov("Point2DKalmanFilter.new"); V[out] = S.Point2DKalmanFilter(*a)
            elif op == "kfp_initiate":
                cov("Point2DKalmanFilter.initiate"); V[out] = V[a[0]].initiate(a[1], a[2])
            elif op == "kfp_predict":
                cov("Point2DKalmanFilter.predict"); V[out] = V[a[0]].predict(V[a[1]])
            elif op == "kfp_update":
                cov("Point2DKalmanFilter.update"); V[out] = V[a[0]].update(V[a[1]], a[2], a[3])
            elif op == "kfp_distance":
                cov("Point2DKalmanFilter.distance"); r = V[a[0]].distance(V[a[1]], a[2], a[3])
            elif op == "kfp_cost":
                cov("Point2DKalmanFilter.calculate_cost"); r = S.Point2DKalmanFilter.calculate_cost(a[0], a[1])
            elif op == "kfp_state_xy":
                cov("Point2DKalmanFilterState.x/y"); r = [V[a[0]].x(), V[a[0]].y()]
            elif op == "kfv_new":
                cov("Vec2DKalmanFilter.new"); V[out] = S.Vec2DKalmanFilter(*a)
            elif op == "kfv_initiate":
                cov("Vec2DKalmanFilter.initiate"); V[out] = V[a[0]].initiate([tuple(p) for p in a[1]])
            elif op == "kfv_predict":
                cov("Vec2DKalmanFilter.predict"); V[out] = V[a[0]].predict(V[a[1]])
            elif op == "kfv_update":
                cov("Vec2DKalmanFilter.update"); V[out] = V[a[0]].update(V[a[1]], [tuple(p) for p in a[2]])
            elif op == "kfv_distance":
                cov("Vec2DKalmanFilter.distance"); r = V[a[0]].distance(V[a[1]], [tuple(p) for p in a[2]])
            elif op == "kfv_cost":
                cov("Vec2DKalmanFilter.calculate_cost"); r = S.Vec2DKalmanFilter.calculate_cost(a[0], a[1])
            elif op == "kfv_states_xy":
                cov("Point2DKalmanFilterState.x/y"); r = [[s.x(), s.y()] for s in V[a[0]]]
            # ---- constraints, metric types, options
            elif op == "stc_new":
                cov("SpatioTemporalConstraints.new"); V[out] = S.SpatioTemporalConstraints()
            elif op == "stc_add":
                cov("SpatioTemporalConstraints.add_constraints"); V[a[0]].add_constraints([tuple(x) for x in a[1]])
            elif op == "stc_validate":
                cov("SpatioTemporalConstraints.validate"); r = V[a[0]].validate(a[1], a[2])
            elif op == "vmetric_repr":
                if a[0] == "euclidean":
                    cov("VisualSortMetricType.euclidean"); r = squash(repr(S.VisualSortMetricType.euclidean(a[1])))
                else:
                    cov("VisualSortMetricType.cosine"); r = squash(repr(S.VisualSortMetricType.cosine(a[1])))
            elif op == "pmetric_repr":
                r = squash(repr(mk_metric(a[0])))
            elif op == "opts_new":
                cov("VisualSortOptions.new"); V[out] = S.VisualSortOptions()
            elif op == "opts_set":
                o = V[a[0]]
                name, val = a[1], a[2]
                cov("VisualSortOptions." + name)
                if name == "visual_metric":
                    if val[0] == "euclidean":
                        cov("VisualSortMetricType.euclidean"); o.visual_metric(S.VisualSortMetricType.euclidean(val[1]))
                    else:
                        cov("VisualSortMetricType.cosine"); o.visual_metric(S.VisualSortMetricType.cosine(val[1]))
                elif name == "positional_metric":
                    o.positional_metric(mk_metric(val))
                elif name == "spatio_temporal_constraints":
                    o.spatio_temporal_constraints(V[val])
                else:
                    getattr(o, name)(val)
            elif op == "opts_repr":
                cov("VisualSortOptions.__repr__"); r = squash(repr(V[a[0]]))
            # ---- trackers
            elif op == "sort_new":
                cov("Sort.new")
                kw = dict(a[0])
                if "method" in kw:
                    kw["method"] = mk_metric(kw["method"])
                if "spatio_temporal_constraints" in kw:
                    kw["spatio_temporal_constraints"] = V[kw["spatio_temporal_constraints"]]
                V[out] = ("sort", S.Sort(**kw))
            elif op == "bsort_new":
                cov("BatchSort.new")
                kw = dict(a[0])
                if "method" in kw:
                    kw["method"] = mk_metric(kw["method"])
                if "spatio_temporal_constraints" in kw:
                    kw["spatio_temporal_constraints"] = V[kw["spatio_temporal_constraints"]]
                V[out] = ("bsort", S.BatchSort(**kw))
            elif op == "vsort_new":
                cov("VisualSort.new"); V[out] = ("vsort", S.VisualSort(a[0], V[a[1]]))
            elif op == "bvsort_new":
                cov("BatchVisualSort.new"); V[out] = ("bvsort", S.BatchVisualSort(a[0], a[1], V[a[2]]))
            elif op == "predict":
                kind, t = V[a[0]]
                scene, dets = a[1], a[2]
                if kind == "sort":
                    boxes = [(V[d["box"]], d.get("custom")) for d in dets]
                    if scene is None:
                        cov("Sort.predict"); res = t.predict(boxes)
                    else:
                        cov("Sort.predict_with_scene"); res = t.predict_with_scene(scene, boxes)
                else:
                    cov("VisualSortObservationSet.new"); cov("VisualSortObservationSet.add"); cov("VisualSortObservation.new")
                    s = S.VisualSortObservationSet()
                    for d in dets:
                        s.add(S.VisualSortObservation(d.get("feature"), d.get("quality"), V[d["box"]], d.get("custom")))
                    if scene is None:
                        cov("VisualSort.predict"); res = t.predict(s)
                    else:
                        cov("VisualSort.predict_with_scene"); res = t.predict_with_scene(scene, s)
                r = [track(x) for x in res]
            elif op == "predict_batch":
                kind, t = V[a[0]]
                batch = a[1]
                if kind == "bsort":
                    cov("SortPredictionBatchRequest.new"); cov("SortPredictionBatchRequest.add"); cov("BatchSort.predict")
                    req = S.SortPredictionBatchRequest()
                    for scene, dets in batch:
                        for d in dets:
                            if "custom" in d:
                                req.add(scene, V[d["box"]], d["custom"])
                            else:
                                req.add(scene, V[d["box"]])
                    LASTREQ[a[0]] = req
                    res = t.predict(req)
                else:
                    cov("VisualSortPredictionBatchRequest.new"); cov("VisualSortPredictionBatchRequest.add"); cov("BatchVisualSort.predict"); cov("VisualSortObservation.new")
                    req = S.VisualSortPredictionBatchRequest()
                    for scene, dets in batch:
                        for d in dets:
                            req.add(scene, S.VisualSortObservation(d.get("feature"), d.get("quality"), V[d["box"]], d.get("custom")))
                    cov("VisualSortPredictionBatchRequest.prediction")
                    p1 = req.prediction()
                    probe = [p1 is not None, p1.batch_size() if p1 is not None else None, req.prediction() is None]
                    res = t.predict(req)
                cov("PredictionBatchResult.batch_size"); cov("PredictionBatchResult.get")
                n = res.batch_size()
                got = []
                for _ in range(n):
                    scene, tracks = res.get()
                    got.append([scene, [track(x) for x in tracks]])
                cov("PredictionBatchResult.ready")
                got.sort(key=lambda x: x[0])
                # batch trackers hand out ids in a schedule dependent order: rename canonically (order of appearance)
                for scene, tracks in got:
                    for tr in tracks:
                        tr["id"] = canon(idmap, a[0], tr["id"])
                r = {"batch_size": n, "results": got, "ready_after": res.ready()}
                if kind == "bvsort":
                    r["request_prediction"] = probe
            elif op == "predict_batch_again":
                kind, t = V[a[0]]
                res = t.predict(LASTREQ[a[0]])
                n = res.batch_size()
                got = []
                for _ in range(n):
                    scene, tracks = res.get()
                    got.append([scene, [track(x) for x in tracks]])
                got.sort(key=lambda x: x[0])
                for scene, tracks in got:
                    for tr in tracks:
                        tr["id"] = canon(idmap, a[0], tr["id"])
                r = {"batch_size": n, "results": got, "ready_after": res.ready()}
            elif op == "skip":
                kind, t = V[a[0]]
                if a[1] is None:
                    cov(kind + ".skip_epochs"); t.skip_epochs(a[2])
                else:
                    cov(kind + ".skip_epochs_for_scene"); t.skip_epochs_for_scene(a[1], a[2])
            elif op == "epoch":
                kind, t = V[a[0]]
                if a[1] is None:
                    cov(kind + ".current_epoch"); r = t.current_epoch()
                else:
                    cov(kind + ".current_epoch_with_scene"); r = t.current_epoch_with_scene(a[1])
            elif op == "shard_stats":
                kind, t = V[a[0]]
                cov(kind + ".shard_stats"); r = t.shard_stats()
                if kind in ("bsort", "bvsort"):
                    # ids (hence the shard of a track) of batch trackers are schedule dependent
                    r = {"shards": len(r), "sum": sum(r)}
            elif op == "wasted":
                kind, t = V[a[0]]
                cov(kind + ".wasted"); r = [wasted(x, kind in ("vsort", "bvsort")) for x in t.wasted()]
                if kind in ("bsort", "bvsort"):
                    for x in r:
                        x["id"] = canon(idmap, a[0], x["id"])
                r.sort(key=lambda x: x["id"])
            elif op == "clear_wasted":
                kind, t = V[a[0]]
                cov(kind + ".clear_wasted"); t.clear_wasted()
            elif op == "idle":
                kind, t = V[a[0]]
                if kind in ("bsort", "bvsort"):
                    cov(kind + ".idle_tracks"); res = t.idle_tracks(a[1] if a[1] is not None else 0)
                elif a[1] is None:
                    cov(kind + ".idle_tracks"); res = t.idle_tracks()
                elif kind == "sort":
                    cov(kind + ".idle_tracks_with_scene"); res = t.idle_tracks_with_scene(a[1])
                else:
                    cov(kind + ".idle_tracks_with_scene"); res = t.idle_tracks_with_scene_py(a[1]) if hasattr(t, "idle_tracks_with_scene_py") else t.idle_tracks_with_scene(a[1])
                r = [track(x) for x in res]
                if kind in ("bsort", "bvsort"):
                    for x in r:
                        x["id"] = canon(idmap, a[0], x["id"])
                r.sort(key=lambda x: x["id"])
            elif op == "drop":
                V.pop(a[0], None)
            else:
                r = "unknown-op:" + op
        except BaseException as e:  # pyo3 panics surface as BaseException subclasses
            r = {"exception": type(e).__name__}
        trace.append(r)
    return trace


def main():
    scripts = json.load(open(sys.argv[2]))
    out = []
    for sc in scripts:
        out.append(run(sc))
    json.dump({"traces": out, "coverage": COVER}, open(sys.argv[3], "w"))


if __name__ == "__main__":
    main()
