//! Deterministic PRNG (xoshiro256** seeded by splitmix64).
#[derive(Clone, Debug)]
pub struct Rng {
    s: [u64; 4],
}

pub fn splitmix(x: &mut u64) -> u64 {
    *x = x.wrapping_add(0x9E3779B97F4A7C15);
    let mut z = *x;
    z = (z ^ (z >> 30)).wrapping_mul(0xBF58476D1CE4E5B9);
    z = (z ^ (z >> 27)).wrapping_mul(0x94D049BB133111EB);
    z ^ (z >> 31)
}

impl Rng {
    pub fn new(seed: u64) -> Self {
        let mut x = seed;
        let s = [
            splitmix(&mut x),
            splitmix(&mut x),
            splitmix(&mut x),
            splitmix(&mut x),
        ];
        Rng { s }
    }
    /// Rng for case `idx` of shard `shard` of run `seed`: a pure function of the triple.
    pub fn for_case(seed: u64, shard: u64, idx: u64) -> Self {
        let mut x = seed ^ 0xA5A5_5A5A_1234_5678;
        let a = splitmix(&mut x);
        let mut y = a ^ shard.wrapping_mul(0x9E3779B97F4A7C15);
        let b = splitmix(&mut y);
        let mut z = b ^ idx.wrapping_mul(0xD1B54A32D192ED03);
        Rng::new(splitmix(&mut z))
    }
    #[inline]
    pub fn u64(&mut self) -> u64 {
        let r = self.s[1].wrapping_mul(5).rotate_left(7).wrapping_mul(9);
        let t = self.s[1] << 17;
        self.s[2] ^= self.s[0];
        self.s[3] ^= self.s[1];
        self.s[1] ^= self.s[2];
        self.s[0] ^= self.s[3];
        self.s[2] ^= t;
        self.s[3] = self.s[3].rotate_left(45);
        r
    }
    /// uniform in 0..n (n > 0)
    #[inline]
    pub fn below(&mut self, n: u64) -> u64 {
        debug_assert!(n > 0);
        ((self.u64() as u128 * n as u128) >> 64) as u64
    }
    #[inline]
    pub fn usize(&mut self, n: usize) -> usize {
        self.below(n as u64) as usize
    }
    /// inclusive range
    #[inline]
    pub fn range(&mut self, lo: i64, hi: i64) -> i64 {
        lo + self.below((hi - lo + 1) as u64) as i64
    }
    #[inline]
    pub fn f64(&mut self) -> f64 {
        (self.u64() >> 11) as f64 / (1u64 << 53) as f64
    }
    #[inline]
    pub fn f32(&mut self) -> f32 {
        (self.u64() >> 40) as f32 / (1u64 << 24) as f32
    }
    #[inline]
    pub fn uniform(&mut self, lo: f64, hi: f64) -> f64 {
        lo + (hi - lo) * self.f64()
    }
    /// log-uniform in [lo, hi], lo > 0
    pub fn log_uniform(&mut self, lo: f64, hi: f64) -> f64 {
        (self.uniform(lo.ln(), hi.ln())).exp()
    }
    pub fn normal(&mut self) -> f64 {
        let u1 = (self.f64()).max(1e-300);
        let u2 = self.f64();
        (-2.0 * u1.ln()).sqrt() * (2.0 * std::f64::consts::PI * u2).cos()
    }
    #[inline]
    pub fn chance(&mut self, p: f64) -> bool {
        self.f64() < p
    }
    pub fn pick<'a, T>(&mut self, xs: &'a [T]) -> &'a T {
        &xs[self.usize(xs.len())]
    }
    pub fn shuffle<T>(&mut self, xs: &mut [T]) {
        for i in (1..xs.len()).rev() {
            let j = self.usize(i + 1);
            xs.swap(i, j);
        }
    }
}

/// FNV-1a over bytes; used for "distinct case" accounting.
pub fn fnv(bytes: &[u8]) -> u64 {
    let mut h: u64 = 0xcbf29ce484222325;
    for b in bytes {
        h ^= *b as u64;
        h = h.wrapping_mul(0x100000001b3);
    }
    h
}

#[derive(Clone)]
pub struct Hasher(pub u64);
impl Default for Hasher {
    fn default() -> Self {
        Hasher(0xcbf29ce484222325)
    }
}
impl Hasher {
    pub fn new() -> Self {
        Self::default()
    }
    #[inline]
    pub fn u64(&mut self, v: u64) -> &mut Self {
        for b in v.to_le_bytes() {
            self.0 ^= b as u64;
            self.0 = self.0.wrapping_mul(0x100000001b3);
        }
        self
    }
    #[inline]
    pub fn f32(&mut self, v: f32) -> &mut Self {
        self.u64(v.to_bits() as u64)
    }
    #[inline]
    pub fn f64(&mut self, v: f64) -> &mut Self {
        self.u64(v.to_bits())
    }
    pub fn str(&mut self, s: &str) -> &mut Self {
        for b in s.as_bytes() {
            self.0 ^= *b as u64;
            self.0 = self.0.wrapping_mul(0x100000001b3);
        }
        self.u64(0xff)
    }
    pub fn get(&self) -> u64 {
        self.0
    }
}
