//! Per-shard observation report; merged by the `check` orchestrator into evidence/<id>.json.
use crate::cli::Cli;
use serde_json::{json, Map, Value};
use std::collections::{BTreeMap, HashSet};
use std::time::Instant;

const MAX_DISTINCT: usize = 2_000_000;
const MAX_SAMPLES: usize = 4;
const MAX_VIOLATIONS: usize = 12;

pub struct Report {
    pub prop: String,
    cli: Cli,
    start: Instant,
    evaluations: u64,
    distinct: HashSet<u64>,
    distinct_dropped: u64,
    counters: BTreeMap<String, u64>,
    maxima: BTreeMap<String, f64>,
    sets: BTreeMap<String, HashSet<u64>>,
    samples: Vec<Value>,
    violations: Vec<Value>,
    violations_total: u64,
    violation_sigs: BTreeMap<String, u64>,
    inconclusive: Vec<String>,
    notes: Map<String, Value>,
}

impl Report {
    pub fn new(prop: &str, cli: &Cli) -> Report {
        Report {
            prop: prop.to_string(),
            cli: cli.clone(),
            start: Instant::now(),
            evaluations: 0,
            distinct: HashSet::new(),
            distinct_dropped: 0,
            counters: BTreeMap::new(),
            maxima: BTreeMap::new(),
            sets: BTreeMap::new(),
            samples: vec![],
            violations: vec![],
            violations_total: 0,
            violation_sigs: BTreeMap::new(),
            inconclusive: vec![],
            notes: Map::new(),
        }
    }
    #[inline]
    pub fn eval(&mut self) {
        self.evaluations += 1;
    }
    pub fn evals(&mut self, n: u64) {
        self.evaluations += n;
    }
    /// record a non-trivial case by its content hash (distinctness is measured, not assumed)
    #[inline]
    pub fn nontrivial(&mut self, hash: u64) {
        if self.distinct.len() < MAX_DISTINCT {
            self.distinct.insert(hash);
        } else if !self.distinct.contains(&hash) {
            // beyond the cap we cannot tell distinct from repeated: count conservatively (not at all)
            self.distinct_dropped += 1;
        }
    }
    #[inline]
    pub fn count(&mut self, key: &str) {
        self.add(key, 1);
    }
    pub fn add(&mut self, key: &str, n: u64) {
        if let Some(v) = self.counters.get_mut(key) {
            *v += n;
        } else {
            self.counters.insert(key.to_string(), n);
        }
    }
    pub fn counter(&self, key: &str) -> u64 {
        self.counters.get(key).cloned().unwrap_or(0)
    }
    pub fn max(&mut self, key: &str, v: f64) {
        if v.is_nan() {
            return;
        }
        match self.maxima.get_mut(key) {
            Some(m) => {
                if v > *m {
                    *m = v
                }
            }
            None => {
                self.maxima.insert(key.to_string(), v);
            }
        }
    }
    /// add an element to a named set of distinct observed things (states, signatures, ...)
    pub fn seen(&mut self, set: &str, hash: u64) {
        let s = self.sets.entry(set.to_string()).or_default();
        if s.len() < MAX_DISTINCT {
            s.insert(hash);
        }
    }
    pub fn seen_count(&self, set: &str) -> usize {
        self.sets.get(set).map(|s| s.len()).unwrap_or(0)
    }
    pub fn sample(&mut self, v: Value) {
        if self.samples.len() < MAX_SAMPLES {
            self.samples.push(v);
        }
    }
    pub fn want_sample(&self) -> bool {
        self.samples.len() < MAX_SAMPLES
    }
    pub fn note(&mut self, k: &str, v: Value) {
        self.notes.insert(k.to_string(), v);
    }
    /// A refuting observation. `signature` is the exact, stable identity used by known_findings.json.
    pub fn violation(&mut self, signature: &str, index: u64, detail: Value) {
        self.violations_total += 1;
        let n = self.violation_sigs.entry(signature.to_string()).or_insert(0);
        *n += 1;
        if (*n == 1 && self.violations.len() < 4 * MAX_VIOLATIONS) || (*n == 2 && self.violations.len() < MAX_VIOLATIONS) {
            self.violations.push(json!({
                "signature": signature,
                "seed": self.cli.seed, "shard": self.cli.shard, "nshards": self.cli.nshards,
                "tier": self.cli.tier, "small": self.cli.small,
                "params": self.cli.params,
                "index": index,
                "detail": detail,
            }));
            // what has been observed so far survives a later hang of the workload (the orchestrator's wall-clock watchdog
            // kills the process; a killed process is inconclusive, but a violation it had already observed stays observed)
            if *n == 1 {
                if let Some(p) = &self.cli.out {
                    let mut v = self.to_json();
                    v["partial"] = json!(true);
                    let _ = std::fs::write(format!("{}.partial", p), serde_json::to_string(&v).unwrap());
                }
            }
        }
    }
    pub fn violations_total(&self) -> u64 {
        self.violations_total
    }
    pub fn inconclusive(&mut self, reason: &str) {
        if self.inconclusive.len() < 10 {
            self.inconclusive.push(reason.to_string());
        }
    }
    pub fn elapsed_s(&self) -> f64 {
        self.start.elapsed().as_secs_f64()
    }
    pub fn to_json(&self) -> Value {
        let sets: BTreeMap<String, usize> =
            self.sets.iter().map(|(k, v)| (k.clone(), v.len())).collect();
        json!({
            "property_id": self.prop,
            "seed": self.cli.seed, "shard": self.cli.shard, "nshards": self.cli.nshards,
            "tier": self.cli.tier,
            "evaluations": self.evaluations,
            "distinct_nontrivial": self.distinct.len(),
            "distinct_not_counted_beyond_cap": self.distinct_dropped,
            "counters": self.counters,
            "maxima": self.maxima,
            "distinct_sets": sets,
            "distinct_set_hashes": self.sets.iter().filter(|(_, v)| v.len() <= 50_000).map(|(k, v)| (k.clone(), v.iter().map(|h| format!("{:x}", h)).collect::<Vec<_>>())).collect::<BTreeMap<String, Vec<String>>>(),
            "samples": self.samples,
            "violations": self.violations,
            "violations_total": self.violations_total,
            "violation_signatures": self.violation_sigs,
            "inconclusive": self.inconclusive,
            "notes": self.notes,
            "wall_s": self.elapsed_s(),
        })
    }
    /// write the report and exit: 0 held, 1 violation(s) observed, 2 inconclusive
    pub fn finish(self) -> ! {
        let v = self.to_json();
        let text = serde_json::to_string(&v).unwrap();
        match &self.cli.out {
            Some(p) => std::fs::write(p, &text).expect("write report"),
            None => println!("{}", serde_json::to_string_pretty(&v).unwrap()),
        }
        let code = if self.violations_total > 0 {
            1
        } else if !self.inconclusive.is_empty() {
            2
        } else {
            0
        };
        // skip destructors of library objects that may still own threads
        std::process::exit(code)
    }
}
