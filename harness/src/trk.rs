//! Shared tracker driver: configuration, uniform wrapper over Sort / BatchSort / VisualSort / BatchVisualSort,
//! snapshots of live tracks, workload (world / history) generator and the lifecycle reference model.
use crate::rng::Rng;
use serde_json::{json, Value};
use similari::prelude::{
    BatchSort, PositionalMetricType, Sort, SpatioTemporalConstraints, Universal2DBox, VisualSort, VisualSortMetricType,
    VisualSortObservation, VisualSortOptions,
};
use similari::track::utils::FromVec;
use similari::trackers::batch::PredictionBatchRequest;
use similari::trackers::kalman_prediction::TrackAttributesKalmanPrediction;
use similari::trackers::sort::{SortTrack, VotingType};
use similari::trackers::tracker_api::TrackerAPI;
use similari::trackers::visual_sort::batch_api::BatchVisualSort;
use std::collections::{BTreeMap, HashMap, HashSet};

// ------------------------------------------------------------------------------------------------
// plain data

#[derive(Clone, Copy, Debug, PartialEq)]
pub struct DBox {
    pub xc: f32,
    pub yc: f32,
    pub angle: Option<f32>,
    pub aspect: f32,
    pub h: f32,
    pub conf: f32,
}

impl DBox {
    pub fn lib(&self) -> Universal2DBox {
        Universal2DBox::new_with_confidence(self.xc, self.yc, self.angle, self.aspect, self.h, self.conf)
    }
    pub fn from_lib(b: &Universal2DBox) -> DBox {
        DBox { xc: b.xc, yc: b.yc, angle: b.angle, aspect: b.aspect, h: b.height, conf: b.confidence }
    }
    pub fn w(&self) -> f64 {
        self.h as f64 * self.aspect as f64
    }
    pub fn area(&self) -> f64 {
        self.w() * self.h as f64
    }
    pub fn radius(&self) -> f64 {
        ((self.w() / 2.0).powi(2) + (self.h as f64 / 2.0).powi(2)).sqrt()
    }
    pub fn poly(&self) -> Vec<crate::geom::P> {
        crate::geom::rect(self.xc as f64, self.yc as f64, self.angle.unwrap_or(0.0) as f64, self.w(), self.h as f64)
    }
    /// same box (angle None == Some(0)), bit-exact otherwise
    pub fn same(&self, o: &DBox) -> bool {
        self.xc.to_bits() == o.xc.to_bits()
            && self.yc.to_bits() == o.yc.to_bits()
            && self.angle.unwrap_or(0.0).to_bits() == o.angle.unwrap_or(0.0).to_bits()
            && self.aspect.to_bits() == o.aspect.to_bits()
            && self.h.to_bits() == o.h.to_bits()
            && self.conf.to_bits() == o.conf.to_bits()
    }
    pub fn js(&self) -> Value {
        json!([self.xc, self.yc, self.angle, self.aspect, self.h, self.conf])
    }
    pub fn hash(&self, h: &mut crate::rng::Hasher) {
        h.f32(self.xc).f32(self.yc).f32(self.angle.unwrap_or(-9.0)).f32(self.aspect).f32(self.h).f32(self.conf);
    }
}

#[derive(Clone, Debug, PartialEq)]
pub struct Det {
    pub b: DBox,
    pub custom: Option<i64>,
    pub feature: Option<Vec<f32>>,
    pub quality: Option<f32>,
    /// generator's ground truth object (never shown to the tracker)
    pub truth: u32,
}
impl Det {
    pub fn js(&self) -> Value {
        json!({"box": self.b.js(), "custom": self.custom, "feature": self.feature, "quality": self.quality})
    }
}

#[derive(Clone, Copy, Debug, PartialEq, Eq, Hash)]
pub enum Kind {
    Sort,
    BatchSort,
    Visual,
    BatchVisual,
}
impl Kind {
    pub fn is_batch(&self) -> bool {
        matches!(self, Kind::BatchSort | Kind::BatchVisual)
    }
    pub fn is_visual(&self) -> bool {
        matches!(self, Kind::Visual | Kind::BatchVisual)
    }
    pub fn simple(&self) -> Kind {
        match self {
            Kind::BatchSort => Kind::Sort,
            Kind::BatchVisual => Kind::Visual,
            k => *k,
        }
    }
}

#[derive(Clone, Copy, Debug, PartialEq)]
pub enum PosMetric {
    IoU(f32),
    Maha,
}

#[derive(Clone, Copy, Debug, PartialEq)]
pub enum VisMetric {
    Euclid(f32),
    Cosine(f32),
}

#[derive(Clone, Debug, PartialEq)]
pub struct VisOpts {
    pub metric: VisMetric,
    pub min_votes: usize,
    pub min_track_len: usize,
    pub max_obs: usize,
    pub min_area: f32,
    pub q_use: f32,
    pub q_collect: f32,
    pub own_use: f32,
    pub own_collect: f32,
}
impl Default for VisOpts {
    fn default() -> Self {
        VisOpts { metric: VisMetric::Euclid(0.6), min_votes: 1, min_track_len: 2, max_obs: 4, min_area: 0.0, q_use: 0.0, q_collect: 0.0, own_use: 0.0, own_collect: 0.0 }
    }
}

#[derive(Clone, Debug, PartialEq)]
pub struct Cfg {
    pub kind: Kind,
    pub pos: PosMetric,
    pub shards: usize,
    pub voting_shards: usize,
    pub history: usize,
    pub max_idle: usize,
    pub min_conf: f32,
    pub constraints: Option<Vec<Vec<(usize, f32)>>>,
    pub wp: f32,
    pub wv: f32,
    pub vis: VisOpts,
    pub auto_waste: Option<usize>,
    /// address scene 0 through the scene-less API variants
    pub sceneless0: bool,
}
impl Cfg {
    pub fn js(&self) -> Value {
        json!(format!("{:?}", self))
    }
    pub fn constraints_lib(&self) -> Option<SpatioTemporalConstraints> {
        self.constraints.as_ref().map(|calls| {
            let mut c = SpatioTemporalConstraints::new();
            for v in calls {
                c.add_constraints(v.clone());
            }
            c
        })
    }
    pub fn threshold(&self) -> f32 {
        match self.pos {
            PosMetric::IoU(t) => t,
            PosMetric::Maha => 1.0,
        }
    }
}

#[derive(Clone, Debug, PartialEq)]
pub struct Rec {
    pub id: u64,
    pub epoch: usize,
    pub scene: u64,
    pub length: usize,
    pub observed: DBox,
    pub predicted: DBox,
    pub custom: Option<i64>,
    pub visual: bool,
}
impl Rec {
    pub fn from_lib(t: &SortTrack) -> Rec {
        Rec {
            id: t.id,
            epoch: t.epoch,
            scene: t.scene_id,
            length: t.length,
            observed: DBox::from_lib(&t.observed_bbox),
            predicted: DBox::from_lib(&t.predicted_bbox),
            custom: t.custom_object_id,
            visual: matches!(t.voting_type, VotingType::Visual),
        }
    }
    pub fn js(&self) -> Value {
        json!({"id": self.id, "epoch": self.epoch, "scene": self.scene, "length": self.length, "observed": self.observed.js(), "predicted": self.predicted.js(), "custom": self.custom, "visual": self.visual})
    }
}

#[derive(Clone, Debug, PartialEq)]
pub struct WastedRec {
    pub id: u64,
    pub epoch: usize,
    pub scene: u64,
    pub length: usize,
    pub observed: DBox,
    pub predicted: DBox,
    pub observed_hist: Vec<DBox>,
    pub predicted_hist: Vec<DBox>,
    pub feature_hist: Option<Vec<Option<Vec<f32>>>>,
    /// VisualSORT: (reported count of collected features, stored class-0 observations carrying a feature, their qualities)
    /// read from the expired track itself before it is converted
    pub gallery: Option<(usize, usize, Vec<f32>)>,
}

#[derive(Clone, Debug, PartialEq)]
pub struct GalleryItem {
    pub feature: Option<Vec<f32>>,
    pub quality: f32,
    pub has_bbox: bool,
}

/// what can be read of a stored track through the public API (+ the guarded Kalman accessor)
#[derive(Clone, Debug, PartialEq)]
pub struct LiveTrack {
    pub id: u64,
    pub scene: u64,
    pub last_epoch: usize,
    pub length: usize,
    pub custom: Option<i64>,
    /// last estimated box = the box held by the newest class-0 observation
    pub est: DBox,
    pub kalman: Option<(Vec<f32>, Vec<f32>)>,
    pub observed_hist: Vec<DBox>,
    pub predicted_hist: Vec<DBox>,
    pub feature_hist: Vec<Option<Vec<f32>>>,
    pub gallery: Vec<GalleryItem>,
    pub collected_count: usize,
    pub n_class0: usize,
    /// own-area share recorded with the newest observation (VisualSORT with own-area thresholds enabled)
    pub own_share: Option<f32>,
}

// ------------------------------------------------------------------------------------------------
// uniform wrapper

thread_local! {
    /// when set (per tracker configuration), scene 0 is addressed through the scene-less API variants
    /// (`predict`, `skip_epochs`, `current_epoch`, `idle_tracks`) instead of the `_with_scene(0, ..)` ones
    static SCENELESS0: std::cell::Cell<bool> = std::cell::Cell::new(false);
}
fn sceneless(scene: u64) -> bool {
    scene == 0 && SCENELESS0.with(|c| c.get())
}

pub enum AnyTracker {
    Sort(Sort),
    BatchSort(BatchSort),
    Visual(VisualSort),
    BatchVisual(BatchVisualSort),
}

fn vis_options(cfg: &Cfg) -> VisualSortOptions {
    let v = &cfg.vis;
    // the builder calls are independent of one another: their order is a function of the configuration (so that a
    // replay rebuilds the same tracker) but otherwise arbitrary
    let mut order: Vec<usize> = (0..16).collect();
    let mut h = crate::rng::Hasher::new();
    h.str(&format!("{:?}", cfg));
    let mut r = crate::rng::Rng::for_case(h.get(), 0, 0);
    r.shuffle(&mut order);
    let mut o = VisualSortOptions::default();
    // a third of the constrained configurations derive their options from a "base" that already carries another (much
    // tighter) table: the setter called later REPLACES the table - the tracker runs with the table it was given last
    if cfg.constraints.is_some() && r.chance(0.33) {
        o = o.spatio_temporal_constraints(SpatioTemporalConstraints::new().constraints(&[(1, 1e-4), (2, 2e-4), (64, 3e-4)]));
    }
    for k in order {
        o = match k {
            0 => o.max_idle_epochs(cfg.max_idle),
            1 => o.kept_history_length(cfg.history),
            2 => o.visual_metric(match v.metric {
                VisMetric::Euclid(t) => VisualSortMetricType::Euclidean(t),
                VisMetric::Cosine(t) => VisualSortMetricType::Cosine(t),
            }),
            3 => o.positional_metric(match cfg.pos {
                PosMetric::IoU(t) => PositionalMetricType::IoU(t),
                PosMetric::Maha => PositionalMetricType::Mahalanobis,
            }),
            4 => o.visual_min_votes(v.min_votes),
            5 => o.visual_minimal_track_length(v.min_track_len),
            6 => o.visual_max_observations(v.max_obs),
            7 => o.visual_minimal_area(v.min_area),
            8 => o.visual_minimal_quality_use(v.q_use),
            9 => o.visual_minimal_quality_collect(v.q_collect),
            10 => o.visual_minimal_own_area_percentage_use(v.own_use),
            11 => o.visual_minimal_own_area_percentage_collect(v.own_collect),
            12 => o.positional_min_confidence(cfg.min_conf),
            13 => o.kalman_position_weight(cfg.wp),
            14 => o.kalman_velocity_weight(cfg.wv),
            _ => match cfg.constraints_lib() {
                Some(c) => o.spatio_temporal_constraints(c),
                None => o,
            },
        };
    }
    o
}

macro_rules! each {
    ($self:ident, $t:ident => $e:expr) => {
        match $self {
            AnyTracker::Sort($t) => $e,
            AnyTracker::BatchSort($t) => $e,
            AnyTracker::Visual($t) => $e,
            AnyTracker::BatchVisual($t) => $e,
        }
    };
}

/// Visits every shard of a track store exactly once. `get_store(id)` is documented as "the store shard for id": which ids
/// share a shard is the store's business (today id % n), so the shards are found by probing ids until as many distinct
/// shard objects have been seen as `shard_stats()` reports.
#[macro_export]
macro_rules! all_shards {
    ($s:expr, $g:ident => $body:block) => {{
        let n = $s.shard_stats().len();
        let mut seen: Vec<usize> = vec![];
        let mut probe = 0usize;
        while seen.len() < n && probe < 64 * n + 64 {
            let $g = $s.get_store(probe);
            let addr = &*$g as *const _ as *const u8 as usize;
            if !seen.contains(&addr) {
                seen.push(addr);
                $body
            }
            probe += 1;
        }
    }};
}

impl AnyTracker {
    pub fn new(cfg: &Cfg) -> AnyTracker {
        SCENELESS0.with(|c| c.set(cfg.sceneless0));
        let pm = match cfg.pos {
            PosMetric::IoU(t) => PositionalMetricType::IoU(t),
            PosMetric::Maha => PositionalMetricType::Mahalanobis,
        };
        let mut t = match cfg.kind {
            Kind::Sort => AnyTracker::Sort(Sort::new(cfg.shards, cfg.history, cfg.max_idle, pm, cfg.min_conf, cfg.constraints_lib(), cfg.wp, cfg.wv)),
            Kind::BatchSort => AnyTracker::BatchSort(BatchSort::new(cfg.shards, cfg.voting_shards, cfg.history, cfg.max_idle, pm, cfg.min_conf, cfg.constraints_lib(), cfg.wp, cfg.wv)),
            Kind::Visual => AnyTracker::Visual(VisualSort::new(cfg.shards, &vis_options(cfg))),
            Kind::BatchVisual => AnyTracker::BatchVisual(BatchVisualSort::new(cfg.shards, cfg.voting_shards, &vis_options(cfg))),
        };
        if let Some(p) = cfg.auto_waste {
            t.set_auto_waste(p);
        }
        t
    }

    /// one scene; batch trackers get a batch holding only this scene
    pub fn predict(&mut self, scene: u64, dets: &[Det]) -> Vec<Rec> {
        match self {
            AnyTracker::Sort(t) => {
                let v: Vec<(Universal2DBox, Option<i64>)> = dets.iter().map(|d| (d.b.lib(), d.custom)).collect();
                if sceneless(scene) { t.predict(&v) } else { t.predict_with_scene(scene, &v) }.iter().map(Rec::from_lib).collect()
            }
            AnyTracker::Visual(t) => {
                let v: Vec<VisualSortObservation> = dets.iter().map(|d| VisualSortObservation::new(d.feature.as_deref(), d.quality, d.b.lib(), d.custom)).collect();
                if sceneless(scene) { t.predict(&v) } else { t.predict_with_scene(scene, &v) }.iter().map(Rec::from_lib).collect()
            }
            _ => {
                if dets.is_empty() {
                    // a batch cannot express "scene with no detections"
                    return vec![];
                }
                let mut r = self.predict_batch(&[(scene, dets.to_vec())]);
                assert_eq!(r.len(), 1);
                r.pop().unwrap().1
            }
        }
    }

    // (see add_order below for the order in which a batch request is filled)
    /// submit one batch and retrieve all results on the calling thread
    pub fn predict_batch(&mut self, batch: &[(u64, Vec<Det>)]) -> Vec<(u64, Vec<Rec>)> {
        match self {
            AnyTracker::BatchSort(t) => {
                let (mut req, res) = PredictionBatchRequest::<(Universal2DBox, Option<i64>)>::new();
                for (si, di) in add_order(batch) {
                    let d = &batch[si].1[di];
                    req.add(batch[si].0, (d.b.lib(), d.custom));
                }
                t.predict(req);
                (0..res.batch_size()).map(|_| {
                    let (s, v) = res.get();
                    (s, v.iter().map(Rec::from_lib).collect())
                }).collect()
            }
            AnyTracker::BatchVisual(t) => {
                let (mut req, res) = PredictionBatchRequest::<VisualSortObservation>::new();
                for (si, di) in add_order(batch) {
                    let d = &batch[si].1[di];
                    req.add(batch[si].0, VisualSortObservation::new(d.feature.as_deref(), d.quality, d.b.lib(), d.custom));
                }
                t.predict(req);
                (0..res.batch_size()).map(|_| {
                    let (s, v) = res.get();
                    (s, v.iter().map(Rec::from_lib).collect())
                }).collect()
            }
            _ => batch.iter().filter(|(_, d)| !d.is_empty()).map(|(s, d)| (*s, self.predict(*s, d))).collect(),
        }
    }

    /// submit one batch and hand its result object to a consumer thread started BEFORE predict (the second
    /// retrieval discipline the batch API allows); the receiver yields the batch's results once drained
    pub fn submit_with_consumer(&mut self, batch: &[(u64, Vec<Det>)]) -> std::sync::mpsc::Receiver<Vec<(u64, Vec<Rec>)>> {
        let (tx, rx) = std::sync::mpsc::channel();
        let spawn_consumer = |res: similari::trackers::batch::PredictionBatchResult| {
            std::thread::spawn(move || {
                let n = res.batch_size();
                let mut out = vec![];
                for _ in 0..n {
                    let (s, v) = res.get();
                    out.push((s, v.iter().map(Rec::from_lib).collect::<Vec<_>>()));
                }
                let _ = tx.send(out);
            })
        };
        match self {
            AnyTracker::BatchSort(t) => {
                let (mut req, res) = PredictionBatchRequest::<(Universal2DBox, Option<i64>)>::new();
                for (si, di) in add_order(batch) {
                    let d = &batch[si].1[di];
                    req.add(batch[si].0, (d.b.lib(), d.custom));
                }
                let _h = spawn_consumer(res);
                t.predict(req);
            }
            AnyTracker::BatchVisual(t) => {
                let (mut req, res) = PredictionBatchRequest::<VisualSortObservation>::new();
                for (si, di) in add_order(batch) {
                    let d = &batch[si].1[di];
                    req.add(batch[si].0, VisualSortObservation::new(d.feature.as_deref(), d.quality, d.b.lib(), d.custom));
                }
                let _h = spawn_consumer(res);
                t.predict(req);
            }
            _ => panic!("submit_with_consumer on a simple tracker"),
        }
        rx
    }

    pub fn skip_epochs(&mut self, scene: u64, n: usize) {
        if sceneless(scene) {
            each!(self, t => t.skip_epochs(n))
        } else {
            each!(self, t => t.skip_epochs_for_scene(scene, n))
        }
    }
    pub fn epoch(&self, scene: u64) -> usize {
        if sceneless(scene) {
            each!(self, t => t.current_epoch())
        } else {
            each!(self, t => t.current_epoch_with_scene(scene))
        }
    }
    pub fn set_auto_waste(&mut self, p: usize) {
        each!(self, t => t.set_auto_waste(p))
    }
    pub fn clear_wasted(&mut self) {
        each!(self, t => t.clear_wasted())
    }
    pub fn active_stats(&self) -> Vec<usize> {
        each!(self, t => t.active_shard_stats())
    }
    pub fn wasted_stats(&self) -> Vec<usize> {
        each!(self, t => t.wasted_shard_stats())
    }
    pub fn idle(&mut self, scene: u64) -> Vec<Rec> {
        if sceneless(scene) {
            each!(self, t => t.idle_tracks().iter().map(Rec::from_lib).collect())
        } else {
            each!(self, t => t.idle_tracks_with_scene(scene).iter().map(Rec::from_lib).collect())
        }
    }
    pub fn wasted(&mut self) -> Vec<WastedRec> {
        match self {
            AnyTracker::Sort(t) => t.wasted().into_iter().map(wasted_sort).collect(),
            AnyTracker::BatchSort(t) => t.wasted().into_iter().map(wasted_sort).collect(),
            AnyTracker::Visual(t) => t.wasted().into_iter().map(wasted_visual).collect(),
            AnyTracker::BatchVisual(t) => t.wasted().into_iter().map(wasted_visual).collect(),
        }
    }
    /// ids physically present in the wasted store (observed just before clear_wasted)
    pub fn wasted_store_ids(&self) -> Vec<u64> {
        let mut v = vec![];
        match self {
            AnyTracker::Sort(t) => {
                let s = t.get_wasted_store();
                all_shards!(s, g => { v.extend(g.keys().cloned()); });
            }
            AnyTracker::BatchSort(t) => {
                let s = t.get_wasted_store();
                all_shards!(s, g => { v.extend(g.keys().cloned()); });
            }
            AnyTracker::Visual(t) => {
                let s = t.get_wasted_store();
                all_shards!(s, g => { v.extend(g.keys().cloned()); });
            }
            AnyTracker::BatchVisual(t) => {
                let s = t.get_wasted_store();
                all_shards!(s, g => { v.extend(g.keys().cloned()); });
            }
        }
        v.sort();
        v
    }
    /// snapshot of the main store (live + expired-but-not-yet-collected tracks)
    pub fn live(&self) -> Vec<LiveTrack> {
        let mut v = vec![];
        match self {
            AnyTracker::Sort(t) => {
                let s = t.get_main_store();
                all_shards!(s, g => {
                    for (id, tr) in g.iter() {
                        v.push(live_sort(*id, tr, 0, 0));
                    }
                });
            }
            AnyTracker::BatchSort(t) => {
                let s = t.get_main_store();
                all_shards!(s, g => {
                    for (id, tr) in g.iter() {
                        v.push(live_sort(*id, tr, 0, 0));
                    }
                });
            }
            AnyTracker::Visual(t) => {
                let s = t.get_main_store();
                all_shards!(s, g => {
                    for (id, tr) in g.iter() {
                        v.push(live_visual(*id, tr));
                    }
                });
            }
            AnyTracker::BatchVisual(t) => {
                let s = t.get_main_store();
                all_shards!(s, g => {
                    for (id, tr) in g.iter() {
                        v.push(live_visual(*id, tr));
                    }
                });
            }
        }
        v.sort_by_key(|t| t.id);
        v
    }
}

type SortStored = similari::track::Track<similari::trackers::sort::SortAttributes, similari::trackers::sort::metric::SortMetric, Universal2DBox>;
type VisualStored = similari::track::Track<
    similari::trackers::visual_sort::track_attributes::VisualAttributes,
    similari::trackers::visual_sort::metric::VisualMetric,
    similari::trackers::visual_sort::observation_attributes::VisualObservationAttributes,
>;

fn wasted_sort(t: SortStored) -> WastedRec {
    let w = similari::trackers::sort::WastedSortTrack::from(t);
    WastedRec {
        id: w.id,
        epoch: w.epoch,
        scene: w.scene_id,
        length: w.length,
        observed: DBox::from_lib(&w.observed_bbox),
        predicted: DBox::from_lib(&w.predicted_bbox),
        observed_hist: w.observed_boxes.iter().map(DBox::from_lib).collect(),
        predicted_hist: w.predicted_boxes.iter().map(DBox::from_lib).collect(),
        feature_hist: None,
        gallery: None,
    }
}
fn wasted_visual(t: VisualStored) -> WastedRec {
    let gallery = {
        let count = t.get_attributes().visual_features_collected_count;
        let obs = t.get_observations(0);
        let withf: Vec<f32> = obs.map(|o| o.iter().filter(|x| x.feature().is_some()).map(|x| x.attr().as_ref().map(|a| a.visual_quality()).unwrap_or(-1.0)).collect()).unwrap_or_default();
        Some((count, withf.len(), withf))
    };
    let w = similari::trackers::visual_sort::WastedVisualSortTrack::from(t);
    WastedRec {
        id: w.id,
        epoch: w.epoch,
        scene: w.scene_id,
        length: w.length,
        observed: DBox::from_lib(&w.observed_bbox),
        predicted: DBox::from_lib(&w.predicted_bbox),
        observed_hist: w.observed_boxes.iter().map(DBox::from_lib).collect(),
        predicted_hist: w.predicted_boxes.iter().map(DBox::from_lib).collect(),
        feature_hist: Some(w.observed_features.clone()),
        gallery,
    }
}

fn live_sort(id: u64, t: &SortStored, _shard: usize, _n: usize) -> LiveTrack {
    let a = t.get_attributes();
    let obs = t.get_observations(0);
    let est = obs.and_then(|o| o.first()).and_then(|o| o.attr().as_ref()).map(DBox::from_lib);
    LiveTrack {
        id,
        scene: a.scene_id,
        last_epoch: a.last_updated_epoch,
        length: a.track_length,
        custom: a.custom_object_id,
        est: est.unwrap_or(DBox { xc: f32::NAN, yc: f32::NAN, angle: None, aspect: f32::NAN, h: f32::NAN, conf: 0.0 }),
        kalman: a.get_state().map(|s| s.verif_raw()),
        observed_hist: a.observed_boxes.iter().map(DBox::from_lib).collect(),
        predicted_hist: a.predicted_boxes.iter().map(DBox::from_lib).collect(),
        feature_hist: vec![],
        gallery: vec![],
        collected_count: 0,
        n_class0: obs.map(|o| o.len()).unwrap_or(0),
        own_share: None,
    }
}

fn live_visual(id: u64, t: &VisualStored) -> LiveTrack {
    let a = t.get_attributes();
    let obs = t.get_observations(0);
    let est = obs.and_then(|o| o.first()).and_then(|o| o.attr().as_ref()).and_then(|x| x.bbox_opt().as_ref()).map(DBox::from_lib);
    let gallery = obs
        .map(|o| {
            o.iter()
                .map(|x| GalleryItem {
                    feature: x.feature().as_ref().map(|f| Vec::from_vec(f)),
                    quality: x.attr().as_ref().map(|q| q.visual_quality()).unwrap_or(f32::NAN),
                    has_bbox: x.attr().as_ref().map(|q| q.bbox_opt().is_some()).unwrap_or(false),
                })
                .collect()
        })
        .unwrap_or_default();
    LiveTrack {
        id,
        scene: a.scene_id,
        last_epoch: a.last_updated_epoch,
        length: a.track_length,
        custom: a.custom_object_id,
        est: est.unwrap_or(DBox { xc: f32::NAN, yc: f32::NAN, angle: None, aspect: f32::NAN, h: f32::NAN, conf: 0.0 }),
        kalman: a.get_state().map(|s| s.verif_raw()),
        observed_hist: a.observed_boxes.iter().map(DBox::from_lib).collect(),
        predicted_hist: a.predicted_boxes.iter().map(DBox::from_lib).collect(),
        feature_hist: a.observed_features.iter().map(|f| f.as_ref().map(|x| Vec::from_vec(x))).collect(),
        gallery,
        collected_count: a.visual_features_collected_count,
        n_class0: obs.map(|o| o.len()).unwrap_or(0),
        own_share: obs.and_then(|o| o.first()).and_then(|o| o.attr().as_ref()).and_then(|x| *x.own_area_percentage_opt()),
    }
}

// ------------------------------------------------------------------------------------------------
// workload generator

#[derive(Clone, Debug)]
pub struct Obj {
    pub truth: u32,
    pub scene: u64,
    pub x: f64,
    pub y: f64,
    pub vx: f64,
    pub vy: f64,
    pub h: f64,
    pub aspect: f64,
    pub angle: Option<f64>,
    pub dangle: f64,
    pub grow: f64,
    pub proto: Vec<f32>,
    /// per-frame appearance noise (std per component, unit-norm prototype)
    pub fnoise: f64,
    /// the embedding of this world's detections comes in varying lengths (feat_dim plus 0 / 8 / 16 extra components):
    /// distances between features of different length are defined on the common packed prefix
    pub flen_mix: bool,
    pub visible_from: usize,
    pub gone_at: usize,
    pub gap_at: usize,
    pub gap_len: usize,
    pub conf: f32,
    pub motion: u8,
    /// "pack" preset: the whole scene's pack jumps by this much along x now and then
    pub pack_jump: f64,
    /// probability that a detection of this object carries no feature
    pub feat_drop: f64,
}

#[derive(Clone, Debug)]
pub struct WorldOpts {
    pub scenes: usize,
    pub same_region: bool,
    pub preset: &'static str,
    pub rotated: bool,
    pub features: bool,
    pub feat_dim: usize,
    pub duplicates: bool,
    pub nobj: usize,
    pub steps: usize,
    pub low_quality: bool,
    /// drop detections that would form a near-coincident edge pair with an earlier detection of the same call
    /// (the input class of the recorded geo-0.27 finding C15; needed when own-area thresholds are enabled)
    pub avoid_coincident: bool,
    /// every object reports a very low detection confidence (0.004..0.045): exercises the min-confidence floor and
    /// the large Mahalanobis weights (100 - d2) / conf
    pub low_conf: bool,
    /// scenes other than the first keep only one object with probability 1/2 (single-detection calls next to
    /// multi-detection calls of another scene)
    pub vary_nobj: bool,
}

pub const PRESETS: [&str; 8] = ["random", "crossing", "convoy", "crowd", "lookalikes", "teleport", "stop-and-go", "pack"];

thread_local! {
    /// C13 only: one object in sixteen is parked (bit-identical detections frame after frame). Not used by the differential
    /// checks: two tracks left behind at the very same box by one parked object are an exact tie for the next detection,
    /// which the statements leave open and two runs of the library may resolve differently.
    pub static PARKED_OBJECTS: std::cell::Cell<bool> = std::cell::Cell::new(false);
}

pub fn gen_world(rng: &mut Rng, o: &WorldOpts) -> Vec<Obj> {
    let mut objs = vec![];
    let mut truth = 0;
    let nobj = if o.preset == "pack" { o.nobj.max(5 + rng.usize(4)) } else { o.nobj };
    let nproto = (nobj / 2).max(1);
    let protos: Vec<Vec<f32>> = (0..nobj.max(1)).map(|_| unit(rng, o.feat_dim)).collect();
    let convoy_speed = rng.uniform(0.1, 0.9);
    // appearance stability of this world: mostly stable embeddings, sometimes noisy ones (same-object similarities then
    // spread over 0.3..0.95, so that low cosine / wide Euclidean thresholds matter)
    let fnoise = *rng.pick(&[0.03f64, 0.03, 0.03, 0.12, 0.35]);
    let flen_mix = o.features && rng.chance(0.15);
    // "pack": six or more equally sized objects side by side, spaced by a small fraction of their width, so that every
    // detection is within the positional gate of every track of the pack (dense, fully contested assignment problems);
    // the pack (5..8 objects or more, spacing 3..15% of the width) drifts together and now and then jumps as a whole by 1..4 spacings in either direction
    let pack_sp = rng.uniform(0.03, 0.15);
    let pack_k = rng.uniform(1.0, 4.0) * if rng.chance(0.5) { 1.0 } else { -1.0 };
    let pack_feat_drop = *rng.pick(&[0.08f64, 0.6, 1.0]);
    let pack_v = (rng.uniform(-1.0, 1.0), rng.uniform(-1.0, 1.0));
    for s in 0..o.scenes {
        let lone = o.vary_nobj && s > 0 && rng.chance(0.5);
        for k in 0..nobj {
            if lone && k >= 1 && !o.same_region {
                break;
            }
            truth += 1;
            let base_h = rng.uniform(20.0, 60.0);
            let (mut x, mut y) = (rng.uniform(100.0, 900.0), rng.uniform(100.0, 700.0));
            let speed = base_h * rng.uniform(0.02, 0.25);
            let dir = rng.uniform(0.0, std::f64::consts::TAU);
            let (mut vx, mut vy) = (speed * dir.cos(), speed * dir.sin());
            let mut h = base_h;
            match o.preset {
                "crossing" => {
                    // pairs moving towards each other along x
                    let pair = (k / 2) as f64;
                    y = 150.0 + pair * 120.0 + rng.uniform(-3.0, 3.0);
                    let sp = base_h * 0.15;
                    if k % 2 == 0 {
                        x = 200.0;
                        vx = sp;
                    } else {
                        x = 200.0 + sp * (o.steps as f64);
                        vx = -sp;
                    }
                    vy = 0.0;
                    h = 40.0 + rng.uniform(-1.0, 1.0);
                }
                "convoy" => {
                    // parallel, overlapping neighbours
                    h = 50.0 + rng.uniform(-2.0, 2.0);
                    x = 200.0 + k as f64 * h * 0.45;
                    y = 300.0 + rng.uniform(-4.0, 4.0);
                    // per-world speed between 10% and 80% of the spacing: above 50% a detection overlaps the
                    // neighbour's last box more than its own (greedy trap)
                    vx = h * 0.45 * convoy_speed;
                    vy = rng.uniform(-0.3, 0.3);
                }
                "crowd" => {
                    h = 45.0 + rng.uniform(-5.0, 5.0);
                    x = 500.0 + rng.uniform(-1.0, 1.0) * h * 1.2;
                    y = 400.0 + rng.uniform(-1.0, 1.0) * h * 1.2;
                    vx *= 0.3;
                    vy *= 0.3;
                }
                "pack" => {
                    h = 60.0;
                    x = 400.0 + k as f64 * h * pack_sp;
                    y = 300.0 + rng.uniform(-0.5, 0.5);
                    vx = pack_v.0;
                    vy = pack_v.1;
                }
                "teleport" => {}
                _ => {}
            }
            if o.same_region && s > 0 {
                // identical coordinates as the corresponding object of scene 0
                let r: &Obj = &objs[k];
                x = r.x;
                y = r.y;
                vx = r.vx;
                vy = r.vy;
                h = r.h;
            }
            let proto = if o.preset == "lookalikes" { protos[k % nproto].clone() } else { protos[k].clone() };
            let lifespan = o.steps;
            let visible_from = if rng.chance(0.3) { rng.usize((lifespan / 2 + 1).min(60)) } else { 0 };
            let gone_at = if rng.chance(0.3) { visible_from + 2 + rng.usize(lifespan) } else { usize::MAX };
            let (gap_at, gap_len) = if rng.chance(0.4) { (visible_from + 1 + rng.usize(lifespan), 1 + rng.usize(4)) } else { (usize::MAX, 0) };
            objs.push(Obj {
                truth,
                scene: s as u64,
                x,
                y,
                vx,
                vy,
                h,
                aspect: rng.uniform(0.4, 1.6),
                angle: if o.rotated && rng.chance(0.6) { Some(rng.uniform(0.05, 3.0)) } else { None },
                // half of the rotated objects keep a constant orientation (the filter's estimated angle then equals the detected one)
                dangle: if o.rotated && rng.chance(0.5) { rng.uniform(-0.03, 0.03) } else { 0.0 },
                grow: rng.uniform(0.995, 1.005),
                proto,
                fnoise,
                flen_mix,
                visible_from,
                gone_at,
                gap_at,
                gap_len,
                conf: if o.low_conf { rng.uniform(0.004, 0.045) as f32 } else if rng.chance(0.3) { if rng.chance(0.3) { rng.uniform(0.004, 0.06) as f32 } else { rng.uniform(0.03, 1.0) as f32 } } else { 1.0 },
                motion: if o.preset == "stop-and-go" { 3 } else { rng.usize(3) as u8 },
                pack_jump: 0.0,
                feat_drop: 0.08,
            });
            if o.preset == "pack" {
                let ob = objs.last_mut().unwrap();
                ob.aspect = 1.0;
                ob.grow = 1.0;
                ob.motion = 0;
                ob.angle = None;
                ob.dangle = 0.0;
                ob.pack_jump = pack_k * 60.0 * pack_sp;
                // (in most packs the appearance is of little help: the positional stage has to sort the pack out)
                ob.feat_drop = pack_feat_drop;
                continue;
            }
            // (C13) one object in sixteen is parked: it is reported with bit-identical box parameters frame after frame (a
            // standing object seen by a deterministic detector), so consecutive observations and predictions coincide
            if PARKED_OBJECTS.with(|c| c.get()) && !(o.same_region && s > 0) && rng.chance(1.0 / 16.0) {
                let ob = objs.last_mut().unwrap();
                ob.motion = 4;
                ob.vx = 0.0;
                ob.vy = 0.0;
                ob.grow = 1.0;
                ob.dangle = 0.0;
            }
        }
    }
    objs
}

fn unit(rng: &mut Rng, n: usize) -> Vec<f32> {
    let v: Vec<f64> = (0..n.max(1)).map(|_| rng.normal()).collect();
    let norm = v.iter().map(|x| x * x).sum::<f64>().sqrt().max(1e-9);
    v.iter().map(|x| (x / norm) as f32).collect()
}

/// advance the world one step and emit the detections of `scene`
pub fn step_scene(rng: &mut Rng, objs: &mut [Obj], scene: u64, step: usize, o: &WorldOpts, serial: &mut i64) -> Vec<Det> {
    let mut dets = vec![];
    for ob in objs.iter_mut().filter(|x| x.scene == scene) {
        match ob.motion {
            1 => {
                // accelerating, but never faster than half a box height per frame
                if (ob.vx * ob.vx + ob.vy * ob.vy).sqrt() < 0.5 * ob.h {
                    ob.vx *= 1.01;
                    ob.vy *= 1.01;
                }
            }
            2 => {
                ob.vx += rng.normal() * 0.02 * ob.h;
                ob.vy += rng.normal() * 0.02 * ob.h;
            }
            3 => {
                if step % 12 >= 6 {
                    continue_motion(ob, 0.0);
                }
            }
            _ => {}
        }
        let sp = (ob.vx * ob.vx + ob.vy * ob.vy).sqrt();
        if sp > 0.6 * ob.h {
            ob.vx *= 0.6 * ob.h / sp;
            ob.vy *= 0.6 * ob.h / sp;
        }
        if ob.motion != 3 || step % 12 < 6 {
            ob.x += ob.vx;
            ob.y += ob.vy;
        }
        if o.preset == "pack" && ((step as u64).wrapping_mul(0x9E37_79B9_7F4A_7C15) ^ scene.wrapping_mul(0xD6E8_FEB8_6659_FD93)) >> 33 & 3 == 0 {
            ob.x += ob.pack_jump;
        }
        if o.preset == "teleport" && rng.chance(0.05) {
            ob.x += ob.h * rng.uniform(3.0, 8.0);
        }
        // the world stays inside the domain of the properties whatever the number of steps: sizes 2..2000, coordinates
        // within a few thousand units (objects bounce off the border)
        ob.h = (ob.h * ob.grow).clamp(2.0, 2000.0);
        if ob.h <= 2.0 || ob.h >= 2000.0 {
            ob.grow = 1.0 / ob.grow;
        }
        if !(-3000.0..=8000.0).contains(&ob.x) {
            ob.vx = -ob.vx;
            ob.x = ob.x.clamp(-3000.0, 8000.0);
        }
        if !(-3000.0..=8000.0).contains(&ob.y) {
            ob.vy = -ob.vy;
            ob.y = ob.y.clamp(-3000.0, 8000.0);
        }
        if let Some(a) = ob.angle.as_mut() {
            *a += ob.dangle;
        }
        let visible = step >= ob.visible_from && step < ob.gone_at && !(step >= ob.gap_at && step < ob.gap_at + ob.gap_len);
        if !visible {
            continue;
        }
        let jit = 0.01 * ob.h;
        let parked = ob.motion == 4;
        let b = DBox {
            xc: (ob.x + if parked { 0.0 } else { rng.normal() * jit }) as f32,
            yc: (ob.y + if parked { 0.0 } else { rng.normal() * jit }) as f32,
            angle: ob.angle.map(|a| a as f32),
            aspect: (ob.aspect * if parked { 1.0 } else { rng.uniform(0.99, 1.01) }) as f32,
            h: (ob.h * if parked { 1.0 } else { rng.uniform(0.99, 1.01) }) as f32,
            conf: ob.conf,
        };
        let feature = if o.features && !rng.chance(ob.feat_drop) {
            let mut f = ob.proto.iter().map(|p| p + (rng.normal() * ob.fnoise) as f32).collect::<Vec<f32>>();
            if ob.flen_mix {
                for _ in 0..8 * rng.usize(3) {
                    f.push((rng.normal() * 0.02) as f32);
                }
            }
            Some(f)
        } else {
            None
        };
        let quality = if o.features {
            if o.low_quality {
                // grid values that hit the thresholds exactly; a third of them nudged by a few 1e-6 so that stored
                // qualities can be distinct yet closer than the library's epsilon
                let q = *rng.pick(&[0.1f32, 0.3, 0.5, 0.5, 0.7, 0.9]);
                Some(if rng.chance(0.33) { q + rng.range(1, 8) as f32 * 1e-6 } else { q })
            } else if rng.chance(0.1) {
                None
            } else {
                // (qualities are arbitrary non-negative numbers: a fifth of the worlds report them on a 0..5 scale)
                Some((rng.uniform(0.3, 1.0) * if ob.flen_mix || ob.truth % 5 == 4 { 5.0 } else { 1.0 }) as f32)
            }
        } else {
            None
        };
        *serial += 1;
        dets.push(Det { b, custom: if rng.chance(0.8) { Some(*serial) } else { None }, feature, quality, truth: ob.truth });
        if o.duplicates && rng.chance(0.1) {
            *serial += 1;
            let mut d = dets.last().unwrap().clone();
            d.custom = Some(*serial);
            dets.push(d);
        }
    }
    rng.shuffle(&mut dets);
    if o.avoid_coincident {
        drop_near_coincident(&mut dets);
    }
    dets
}

pub fn drop_near_coincident(dets: &mut Vec<Det>) {
    let mut kept: Vec<Det> = vec![];
    for d in dets.drain(..) {
        let p = d.b.poly();
        let clash = kept.iter().any(|k| crate::geom::has_near_coincident_edges(&[k.b.poly(), p.clone()]));
        if !clash {
            kept.push(d);
        }
    }
    *dets = kept;
}

fn continue_motion(_ob: &mut Obj, _f: f64) {}

#[derive(Clone, Debug)]
pub enum Op {
    Predict { scene: u64, dets: Vec<Det> },
    Batch(Vec<(u64, Vec<Det>)>),
    Skip { scene: u64, n: usize },
    Wasted,
    Idle { scene: u64 },
    ClearWasted,
    SetAutoWaste(usize),
}

#[derive(Clone, Debug)]
pub struct HistOpts {
    pub len: usize,
    pub lifecycle_ops: bool,
    pub clear_wasted: bool,
    pub auto_waste_ops: bool,
    pub batches: bool,
    pub empty_calls: bool,
}

pub fn gen_history(rng: &mut Rng, w: &WorldOpts, h: &HistOpts) -> Vec<Op> {
    let mut objs = gen_world(rng, w);
    let mut ops = vec![];
    let mut serial = 0i64;
    let mut step_of_scene: HashMap<u64, usize> = HashMap::new();
    let mut attempts = 0;
    while ops.len() < h.len && attempts < 20 * h.len + 100 {
        attempts += 1;
        let r = rng.usize(100);
        if h.lifecycle_ops && r < 6 {
            // (now and then a scene leaps thousands of epochs ahead of the others)
            let n = if rng.chance(0.08) { 1200 + rng.usize(4000) } else { rng.usize(4) };
            ops.push(Op::Skip { scene: rng.below(w.scenes as u64), n });
        } else if h.lifecycle_ops && r < 14 {
            ops.push(Op::Wasted);
        } else if h.lifecycle_ops && r < 22 {
            ops.push(Op::Idle { scene: rng.below(w.scenes as u64) });
        } else if h.clear_wasted && r < 25 {
            ops.push(Op::ClearWasted);
        } else if h.auto_waste_ops && r < 28 {
            ops.push(Op::SetAutoWaste(*rng.pick(&[0usize, 1, 2, 100])));
        } else if h.batches {
            // a batch over a random non-empty subset of scenes
            let mut b = vec![];
            for s in 0..w.scenes as u64 {
                if rng.chance(0.7) {
                    let st = step_of_scene.entry(s).or_insert(0);
                    let d = step_scene(rng, &mut objs, s, *st, w, &mut serial);
                    *st += 1;
                    if !d.is_empty() {
                        b.push((s, d));
                    }
                }
            }
            if !b.is_empty() {
                ops.push(Op::Batch(b));
            }
        } else {
            let s = rng.below(w.scenes as u64);
            let st = step_of_scene.entry(s).or_insert(0);
            let mut d = step_scene(rng, &mut objs, s, *st, w, &mut serial);
            *st += 1;
            if h.empty_calls && rng.chance(0.07) {
                d.clear();
            }
            ops.push(Op::Predict { scene: s, dets: d });
        }
    }
    ops
}

pub fn gen_cfg(rng: &mut Rng, kind: Kind) -> Cfg {
    let pos = if rng.chance(0.5) { PosMetric::IoU(*rng.pick(&[0.1f32, 0.2, 0.3, 0.5, 0.7])) } else { PosMetric::Maha };
    let max_obs = 1 + rng.usize(8);
    Cfg {
        kind,
        pos,
        shards: 1 + rng.usize(4),
        voting_shards: 1 + rng.usize(4),
        history: 1 + rng.usize(10),
        max_idle: rng.usize(4),
        min_conf: *rng.pick(&[0.01f32, 0.05, 0.1, 0.3]),
        // 30% of the configurations carry spatio-temporal constraints (binding or not, one or two add calls)
        constraints: if rng.chance(0.3) {
            let calls = 1 + rng.usize(2);
            Some((0..calls).map(|_| (0..1 + rng.usize(3)).map(|_| (rng.usize(6), *rng.pick(&[0.3f32, 1.0, 3.0, 1.0e6]))).collect()).collect())
        } else {
            None
        },
        // mostly the default Kalman weights; sometimes a large position weight (then the chi-square gate is wider
        // than the bounding-circle reach, so the reach part of the Mahalanobis gate becomes binding)
        wp: *rng.pick(&[0.05f32, 0.05, 0.05, 0.05, 0.05, 0.05, 0.3, 1.0]),
        wv: 1.0 / 160.0,
        vis: VisOpts {
            metric: if rng.chance(0.5) { VisMetric::Euclid(*rng.pick(&[0.3f32, 0.6, 1.0, 1.6])) } else { VisMetric::Cosine(*rng.pick(&[-0.3f32, 0.1, 0.3, 0.5, 0.8, 0.95])) },
            min_votes: 1 + rng.usize(3),
            min_track_len: (1 + rng.usize(4)).min(max_obs),
            max_obs,
            min_area: *rng.pick(&[0.0f32, 0.0, 500.0, 1500.0]),
            q_use: *rng.pick(&[0.0f32, 0.3, 0.5]),
            q_collect: *rng.pick(&[0.0f32, 0.5, 0.7]),
            own_use: *rng.pick(&[0.0f32, 0.0, 0.3, 0.6, 0.9]),
            own_collect: *rng.pick(&[0.0f32, 0.0, 0.3, 0.6, 0.85, 0.95]),
        },
        auto_waste: None,
        sceneless0: rng.chance(0.5),
    }
}

// ------------------------------------------------------------------------------------------------
// lifecycle reference model (advanced only from what crosses the API boundary)

#[derive(Clone, Copy, Debug, PartialEq, Eq)]
pub enum Place {
    Live,
    HandedOut,
    Cleared,
}

#[derive(Clone, Debug)]
pub struct MTrk {
    pub scene: u64,
    pub created: usize,
    pub last: usize,
    pub length: usize,
    pub place: Place,
    pub dets: Vec<DBox>,
    pub preds: Vec<DBox>,
    pub feats: Vec<Option<Vec<f32>>>,
}

/// The order in which the detections of a multi-scene batch are add()ed to the request: scene by scene as given, scene by
/// scene in reverse, or interleaved round-robin across the scenes (detector order) - always keeping each scene's own
/// detections in their order, which is all the API asks for. Chosen by a hash of the batch, so replays are identical.
pub fn add_order(batch: &[(u64, Vec<Det>)]) -> Vec<(usize, usize)> {
    let mut h = crate::rng::Hasher::new();
    h.u64(batch.len() as u64);
    for (s, ds) in batch {
        h.u64(*s).u64(ds.len() as u64);
        if let Some(d) = ds.first() {
            h.f32(d.b.xc);
        }
    }
    let mode = if batch.len() < 2 { 0 } else { h.get() % 3 };
    let mut out = vec![];
    match mode {
        0 => {
            for (si, (_, ds)) in batch.iter().enumerate() {
                out.extend((0..ds.len()).map(|di| (si, di)));
            }
        }
        1 => {
            for (si, (_, ds)) in batch.iter().enumerate().rev() {
                out.extend((0..ds.len()).map(|di| (si, di)));
            }
        }
        _ => {
            let most = batch.iter().map(|(_, ds)| ds.len()).max().unwrap_or(0);
            for di in 0..most {
                for (si, (_, ds)) in batch.iter().enumerate() {
                    if di < ds.len() {
                        out.push((si, di));
                    }
                }
            }
        }
    }
    out
}

#[derive(Default)]
pub struct Life {
    pub epochs: BTreeMap<u64, usize>,
    pub tracks: BTreeMap<u64, MTrk>,
    pub submitted: usize,
    pub max_idle: usize,
    pub seen_ids: HashSet<u64>,
}

impl Life {
    pub fn new(max_idle: usize) -> Life {
        Life { max_idle, ..Default::default() }
    }
    pub fn epoch(&self, s: u64) -> usize {
        *self.epochs.get(&s).unwrap_or(&0)
    }
    pub fn expired(&self, t: &MTrk) -> bool {
        self.epoch(t.scene) > t.last + self.max_idle
    }
    pub fn live_unexpired(&self, scene: u64) -> Vec<u64> {
        self.tracks.iter().filter(|(_, t)| t.place == Place::Live && t.scene == scene && !self.expired(t)).map(|(i, _)| *i).collect()
    }
    pub fn held(&self) -> usize {
        self.tracks.values().filter(|t| t.place == Place::Live).count()
    }
    /// apply the records of one predict call for `scene`; returns contract violations (signature, detail)
    pub fn on_predict(&mut self, scene: u64, dets: &[Det], recs: &[Rec], check_ids_fresh_sequential: bool) -> Vec<(String, Value)> {
        let mut v = vec![];
        let e = self.epoch(scene) + 1;
        self.epochs.insert(scene, e);
        self.submitted += dets.len();
        if recs.len() != dets.len() {
            v.push(("record-count".to_string(), json!({"dets": dets.len(), "records": recs.len()})));
            return v;
        }
        let mut ids = HashSet::new();
        for (i, (d, r)) in dets.iter().zip(recs.iter()).enumerate() {
            if !r.observed.same(&d.b) {
                v.push(("observed-box-not-echoed".to_string(), json!({"i": i, "det": d.b.js(), "record": r.js()})));
            }
            if r.custom != d.custom {
                v.push(("custom-id-not-echoed".to_string(), json!({"i": i, "det": d.custom, "record": r.custom})));
            }
            if r.scene != scene {
                v.push(("scene-not-echoed".to_string(), json!({"i": i, "scene": scene, "record": r.js()})));
            }
            if r.epoch != e {
                v.push(("epoch".to_string(), json!({"i": i, "expected": e, "record": r.js()})));
            }
            if !ids.insert(r.id) {
                v.push(("same-id-twice-in-one-call".to_string(), json!({"i": i, "id": r.id})));
                continue;
            }
            match self.tracks.get_mut(&r.id) {
                Some(t) => {
                    if t.place != Place::Live {
                        v.push(("id-of-handed-out-or-cleared-track-reused".to_string(), json!({"i": i, "record": r.js(), "place": format!("{:?}", t.place)})));
                        continue;
                    }
                    if t.scene != scene {
                        v.push(("attached-to-track-of-another-scene".to_string(), json!({"i": i, "record": r.js(), "track_scene": t.scene})));
                        continue;
                    }
                    if e > t.last + self.max_idle {
                        v.push(("expired-track-continued".to_string(), json!({"i": i, "record": r.js(), "last": t.last, "epoch": e, "max_idle": self.max_idle})));
                    }
                    if e == t.last {
                        v.push(("same-id-twice-in-one-call".to_string(), json!({"i": i, "id": r.id})));
                    }
                    t.last = e;
                    t.length += 1;
                    t.dets.push(d.b);
                    t.preds.push(r.predicted);
                    t.feats.push(d.feature.clone());
                    if r.length != t.length {
                        v.push(("length".to_string(), json!({"i": i, "expected": t.length, "record": r.js()})));
                    }
                }
                None => {
                    if self.seen_ids.contains(&r.id) {
                        v.push(("id-recycled".to_string(), json!({"i": i, "record": r.js()})));
                    }
                    if r.length != 1 {
                        v.push(("fresh-id-with-length-not-1".to_string(), json!({"i": i, "record": r.js()})));
                    }
                    self.seen_ids.insert(r.id);
                    self.tracks.insert(r.id, MTrk { scene, created: e, last: e, length: 1, place: Place::Live, dets: vec![d.b], preds: vec![r.predicted], feats: vec![d.feature.clone()] });
                }
            }
        }
        let _ = check_ids_fresh_sequential;
        v
    }
    pub fn on_skip(&mut self, scene: u64, n: usize) {
        let e = self.epoch(scene) + n;
        self.epochs.insert(scene, e);
    }
}

/// per-scene grouping signature of a run: for every record the index of its track in order of first appearance
pub fn bijection_check(a: &[Rec], b: &[Rec], map: &mut HashMap<u64, u64>, rev: &mut HashMap<u64, u64>) -> Option<String> {
    if a.len() != b.len() {
        return Some(format!("record counts differ: {} vs {}", a.len(), b.len()));
    }
    for (i, (x, y)) in a.iter().zip(b.iter()).enumerate() {
        match (map.get(&x.id), rev.get(&y.id)) {
            (None, None) => {
                map.insert(x.id, y.id);
                rev.insert(y.id, x.id);
            }
            (Some(m), Some(r)) if *m == y.id && *r == x.id => {}
            _ => return Some(format!("record {}: grouping differs (track {} vs track {})", i, x.id, y.id)),
        }
        if x.epoch != y.epoch || x.length != y.length || !x.observed.same(&y.observed) || !x.predicted.same(&y.predicted) || x.custom != y.custom {
            return Some(format!("record {}: numbers differ {:?} vs {:?}", i, x, y));
        }
    }
    None
}
