//! Independent f64 reference geometry (convex polygons).
pub type P = (f64, f64);

pub fn shoelace(p: &[P]) -> f64 {
    let n = p.len();
    if n < 3 {
        return 0.0;
    }
    // translate to the first vertex: avoids cancellation for small polygons far from the origin
    let (ox, oy) = p[0];
    let mut s = 0.0;
    for i in 0..n {
        let (x1, y1) = (p[i].0 - ox, p[i].1 - oy);
        let (x2, y2) = (p[(i + 1) % n].0 - ox, p[(i + 1) % n].1 - oy);
        s += x1 * y2 - x2 * y1;
    }
    0.5 * s.abs()
}

pub fn centroid_mean(p: &[P]) -> P {
    let n = p.len() as f64;
    let (sx, sy) = p.iter().fold((0.0, 0.0), |a, b| (a.0 + b.0, a.1 + b.1));
    (sx / n, sy / n)
}

/// area-weighted centroid of a simple polygon
pub fn centroid_area(p: &[P]) -> P {
    let n = p.len();
    let (ox, oy) = p[0];
    let mut a = 0.0;
    let mut cx = 0.0;
    let mut cy = 0.0;
    for i in 0..n {
        let (x1, y1) = (p[i].0 - ox, p[i].1 - oy);
        let (x2, y2) = (p[(i + 1) % n].0 - ox, p[(i + 1) % n].1 - oy);
        let c = x1 * y2 - x2 * y1;
        a += c;
        cx += (x1 + x2) * c;
        cy += (y1 + y2) * c;
    }
    if a.abs() < 1e-300 {
        return centroid_mean(p);
    }
    (ox + cx / (3.0 * a), oy + cy / (3.0 * a))
}

/// Rectangle with centre (xc, yc), width w, height h rotated by `angle` (radians, CCW) about its centre.
pub fn rect(xc: f64, yc: f64, angle: f64, w: f64, h: f64) -> Vec<P> {
    let (s, c) = angle.sin_cos();
    let hw = w / 2.0;
    let hh = h / 2.0;
    [(-hw, -hh), (hw, -hh), (hw, hh), (-hw, hh)]
        .iter()
        .map(|(x, y)| (xc + x * c - y * s, yc + x * s + y * c))
        .collect()
}

fn cross(o: P, a: P, b: P) -> f64 {
    (a.0 - o.0) * (b.1 - o.1) - (a.1 - o.1) * (b.0 - o.0)
}

/// orientation sign of a convex polygon (+1 ccw, -1 cw)
fn orient(p: &[P]) -> f64 {
    let n = p.len();
    let mut s = 0.0;
    for i in 0..n {
        let (x1, y1) = p[i];
        let (x2, y2) = p[(i + 1) % n];
        s += x1 * y2 - x2 * y1;
    }
    if s >= 0.0 {
        1.0
    } else {
        -1.0
    }
}

/// point inside (or on the boundary of, within eps*scale) a convex polygon
pub fn inside_convex(pt: P, poly: &[P], eps: f64) -> bool {
    let n = poly.len();
    if n < 3 {
        return false;
    }
    let o = orient(poly);
    for i in 0..n {
        let a = poly[i];
        let b = poly[(i + 1) % n];
        let len = ((b.0 - a.0).powi(2) + (b.1 - a.1).powi(2)).sqrt();
        if len == 0.0 {
            continue;
        }
        if o * cross(a, b, pt) < -eps * len {
            return false;
        }
    }
    true
}

fn seg_intersection(a: P, b: P, c: P, d: P) -> Option<P> {
    let r = (b.0 - a.0, b.1 - a.1);
    let s = (d.0 - c.0, d.1 - c.1);
    let den = r.0 * s.1 - r.1 * s.0;
    if den.abs() < 1e-300 {
        return None; // parallel: overlapping collinear edges contribute their end points via the inside test
    }
    let t = ((c.0 - a.0) * s.1 - (c.1 - a.1) * s.0) / den;
    let u = ((c.0 - a.0) * r.1 - (c.1 - a.1) * r.0) / den;
    let e = 1e-12;
    if t >= -e && t <= 1.0 + e && u >= -e && u <= 1.0 + e {
        Some((a.0 + t * r.0, a.1 + t * r.1))
    } else {
        None
    }
}

/// Intersection of two convex polygons: vertices of each inside the other plus all edge crossings,
/// ordered around their mean. (Deliberately not Sutherland-Hodgman.)
pub fn convex_intersection(p: &[P], q: &[P]) -> Vec<P> {
    if p.len() < 3 || q.len() < 3 {
        return vec![];
    }
    let scale = p
        .iter()
        .chain(q.iter())
        .fold(0.0f64, |m, v| m.max(v.0.abs()).max(v.1.abs()))
        .max(1e-300);
    let eps = 1e-12 * scale;
    let mut pts: Vec<P> = vec![];
    for v in p {
        if inside_convex(*v, q, eps) {
            pts.push(*v);
        }
    }
    for v in q {
        if inside_convex(*v, p, eps) {
            pts.push(*v);
        }
    }
    for i in 0..p.len() {
        for j in 0..q.len() {
            if let Some(x) = seg_intersection(p[i], p[(i + 1) % p.len()], q[j], q[(j + 1) % q.len()])
            {
                // for almost parallel edges the parameters are ill conditioned: keep the point only if it
                // really lies in both polygons
                if inside_convex(x, p, 1e-9 * scale) && inside_convex(x, q, 1e-9 * scale) {
                    pts.push(x);
                }
            }
        }
    }
    if pts.len() < 3 {
        return vec![];
    }
    let out = convex_hull(pts);
    if out.len() < 3 {
        return vec![];
    }
    out
}

/// Andrew's monotone chain; returns a strictly convex CCW polygon (collinear and duplicate points dropped)
pub fn convex_hull(pts: Vec<P>) -> Vec<P> {
    // merge points closer than 1e-11 * scale (quadratic, the sets are tiny): micro-edges between numerically
    // coincident points would have arbitrary directions and break the half-plane tests
    let scale = pts.iter().fold(0.0f64, |m, v| m.max(v.0.abs()).max(v.1.abs())).max(1e-300);
    let dtol = 1e-11 * scale;
    let mut kept: Vec<P> = Vec::with_capacity(pts.len());
    for v in pts {
        if !kept.iter().any(|k| (k.0 - v.0).abs() <= dtol && (k.1 - v.1).abs() <= dtol) {
            kept.push(v);
        }
    }
    let mut pts = kept;
    pts.sort_by(|a, b| a.partial_cmp(b).unwrap());
    let n = pts.len();
    if n < 3 {
        return pts;
    }
    let mut h: Vec<P> = Vec::with_capacity(2 * n);
    for i in 0..n {
        while h.len() >= 2 && cross(h[h.len() - 2], h[h.len() - 1], pts[i]) <= 0.0 {
            h.pop();
        }
        h.push(pts[i]);
    }
    let lower = h.len() + 1;
    for i in (0..n - 1).rev() {
        while h.len() >= lower && cross(h[h.len() - 2], h[h.len() - 1], pts[i]) <= 0.0 {
            h.pop();
        }
        h.push(pts[i]);
    }
    h.pop();
    h
}

pub fn intersection_area(p: &[P], q: &[P]) -> f64 {
    shoelace(&convex_intersection(p, q))
}

/// minimal distance between two convex polygons' boundaries if they are disjoint (0 if they overlap/touch)
pub fn separation(p: &[P], q: &[P]) -> f64 {
    // overlap test
    for v in p {
        if inside_convex(*v, q, 0.0) {
            return 0.0;
        }
    }
    for v in q {
        if inside_convex(*v, p, 0.0) {
            return 0.0;
        }
    }
    let mut best = f64::INFINITY;
    for i in 0..p.len() {
        let (a, b) = (p[i], p[(i + 1) % p.len()]);
        for j in 0..q.len() {
            let (c, d) = (q[j], q[(j + 1) % q.len()]);
            if seg_intersection(a, b, c, d).is_some() {
                return 0.0;
            }
            best = best
                .min(pt_seg(a, c, d))
                .min(pt_seg(b, c, d))
                .min(pt_seg(c, a, b))
                .min(pt_seg(d, a, b));
        }
    }
    best
}

pub fn pt_seg(p: P, a: P, b: P) -> f64 {
    let ab = (b.0 - a.0, b.1 - a.1);
    let l2 = ab.0 * ab.0 + ab.1 * ab.1;
    let t = if l2 <= 0.0 {
        0.0
    } else {
        (((p.0 - a.0) * ab.0 + (p.1 - a.1) * ab.1) / l2).clamp(0.0, 1.0)
    };
    let q = (a.0 + t * ab.0, a.1 + t * ab.1);
    ((p.0 - q.0).powi(2) + (p.1 - q.1).powi(2)).sqrt()
}

/// Area of `base` not covered by any polygon of `others` (all convex), by inclusion-exclusion.
pub fn uncovered_area(base: &[P], others: &[Vec<P>]) -> f64 {
    // keep only those that intersect base
    let cand: Vec<&Vec<P>> = others
        .iter()
        .filter(|o| {
            let x = convex_intersection(base, o);
            x.len() >= 3 && shoelace(&x) > 0.0
        })
        .collect();
    let mut covered = 0.0;
    // sum over non-empty subsets S of (-1)^{|S|+1} area(base ∩ ⋂S); the running polygon is always intersected
    // with an original rectangle
    fn rec(cand: &[&Vec<P>], start: usize, cur: &[P], depth: usize, acc: &mut f64) {
        for i in start..cand.len() {
            let inter = convex_intersection(cur, cand[i]);
            if inter.len() < 3 {
                continue;
            }
            let a = shoelace(&inter);
            if a <= 0.0 {
                continue;
            }
            if depth % 2 == 0 {
                *acc += a
            } else {
                *acc -= a
            }
            rec(cand, i + 1, &inter, depth + 1, acc);
        }
    }
    rec(&cand, 0, base, 0, &mut covered);
    (shoelace(base) - covered).max(0.0)
}

/// the input class of the known geo-0.27 defect: two boxes with a near-coincident edge pair
pub fn has_near_coincident_edges(polys: &[Vec<P>]) -> bool {
    for i in 0..polys.len() {
        for j in i + 1..polys.len() {
            let (p, q) = (&polys[i], &polys[j]);
            let side = |x: &Vec<P>| {
                let a = ((x[1].0 - x[0].0).powi(2) + (x[1].1 - x[0].1).powi(2)).sqrt();
                let b = ((x[2].0 - x[1].0).powi(2) + (x[2].1 - x[1].1).powi(2)).sqrt();
                a.min(b)
            };
            let small = side(p).min(side(q));
            for a in 0..4 {
                let (a0, a1) = (p[a], p[(a + 1) % 4]);
                let da = (a1.0 - a0.0, a1.1 - a0.1);
                let la = (da.0 * da.0 + da.1 * da.1).sqrt();
                for b in 0..4 {
                    let (b0, b1) = (q[b], q[(b + 1) % 4]);
                    let db = (b1.0 - b0.0, b1.1 - b0.1);
                    let lb = (db.0 * db.0 + db.1 * db.1).sqrt();
                    let sin = ((da.0 * db.1 - da.1 * db.0) / (la * lb)).abs();
                    if sin >= 0.03 {
                        continue;
                    }
                    // distance of b's end points from a's line
                    let dist = |pt: P| ((pt.0 - a0.0) * da.1 - (pt.1 - a0.1) * da.0).abs() / la;
                    if dist(b0).max(dist(b1)) >= 0.05 * small {
                        continue;
                    }
                    // overlapping extent along a
                    let t = |pt: P| ((pt.0 - a0.0) * da.0 + (pt.1 - a0.1) * da.1) / (la * la);
                    let (t0, t1) = (t(b0).min(t(b1)), t(b0).max(t(b1)));
                    if t1 > 0.0 && t0 < 1.0 {
                        return true;
                    }
                }
            }
        }
    }
    false
}

