//! Workload attribute / metric / notifier types for the store- and track-level monitors (C09, C10, C11)
//! and a sequential reference model of the store written from the property statements.
use anyhow::{anyhow, Result};
use similari::track::notify::ChangeNotifier;
use similari::track::utils::FromVec;
use similari::track::{
    Feature, LookupRequest, MetricOutput, MetricQuery, Observation, ObservationAttributes, ObservationMetric,
    ObservationsDb, Track, TrackAttributes, TrackAttributesUpdate, TrackStatus,
};
use std::collections::BTreeMap;
use std::sync::atomic::{AtomicI64, AtomicU64, Ordering};
use std::sync::Arc;

/// Fault plan shared by all callbacks of one "side" (library side or model side).
/// Every callback invocation takes a ticket; the invocation whose ticket equals `fail_at` fails
/// (after having mutated its arguments, so that a missing rollback is visible).
#[derive(Debug, Default)]
pub struct FaultPlan {
    pub calls: AtomicI64,
    pub fail_at: AtomicI64,
    pub paused: std::sync::atomic::AtomicBool,
    /// when > 0 every optimize call sleeps this many microseconds (widens the window of an in-flight merge)
    pub slow_us: AtomicU64,
    /// when set, the metric post-processes every distance list it is handed as a LIST: only the results with the smallest
    /// feature distance of the list survive (all of them when no result of the list has a feature distance)
    pub post_min: std::sync::atomic::AtomicBool,
    pub log: std::sync::Mutex<Vec<&'static str>>,
}
impl FaultPlan {
    pub fn new() -> Arc<FaultPlan> {
        Arc::new(FaultPlan { calls: AtomicI64::new(0), fail_at: AtomicI64::new(-1), paused: Default::default(), slow_us: AtomicU64::new(0), post_min: Default::default(), log: Default::default() })
    }
    pub fn arm(&self, k: i64) {
        self.calls.store(0, Ordering::SeqCst);
        self.fail_at.store(k, Ordering::SeqCst);
        self.log.lock().unwrap().clear();
    }
    pub fn disarm(&self) -> i64 {
        self.fail_at.store(-1, Ordering::SeqCst);
        self.calls.swap(0, Ordering::SeqCst)
    }
    fn ticket(&self, site: &'static str) -> bool {
        if self.paused.load(Ordering::SeqCst) {
            return false;
        }
        let t = self.calls.fetch_add(1, Ordering::SeqCst);
        self.log.lock().unwrap().push(site);
        t == self.fail_at.load(Ordering::SeqCst)
    }
}

/// value that makes a callback fail deterministically (data-driven faults, used where a model must agree)
pub const POISON: i64 = 666;
/// observation quality that makes optimize fail only when it runs as part of a merge
pub const POISON_MERGE: i64 = 667;

#[derive(Clone, Debug)]
pub struct WAttrs {
    pub compat: u8,
    pub counter: i64,
    pub merges: u32,
    pub optimized: u32,
    /// the metric's internal state as seen by the last optimize call (makes the private metric state observable)
    pub seen_metric_state: u32,
    pub cap: usize,
    pub plan: Arc<FaultPlan>,
}
impl PartialEq for WAttrs {
    fn eq(&self, o: &Self) -> bool {
        self.key() == o.key() && self.cap == o.cap
    }
}
impl WAttrs {
    pub fn new(compat: u8, cap: usize, plan: Arc<FaultPlan>) -> WAttrs {
        WAttrs { compat, counter: 0, merges: 0, optimized: 0, seen_metric_state: 0, cap, plan }
    }
    pub fn status_code(&self) -> u8 {
        // 0 pending, 1 ready, 2 wasted, 3 error
        (self.counter.rem_euclid(4)) as u8
    }
    pub fn key(&self) -> (u8, i64, u32, u32, u32) {
        (self.compat, self.counter, self.merges, self.optimized, self.seen_metric_state)
    }
}

#[derive(Clone, Debug, PartialEq)]
pub struct WUpdate {
    pub delta: i64,
    pub set_compat: Option<u8>,
}
impl TrackAttributesUpdate<WAttrs> for WUpdate {
    fn apply(&self, attrs: &mut WAttrs) -> Result<()> {
        attrs.counter += self.delta;
        if let Some(c) = self.set_compat {
            attrs.compat = c;
        }
        if self.delta == POISON || attrs.plan.ticket("update.apply") {
            return Err(anyhow!("injected: update.apply"));
        }
        Ok(())
    }
}

#[derive(Clone, Debug, PartialEq)]
pub struct WObs(pub f32);
impl ObservationAttributes for WObs {
    type MetricObject = f32;
    fn calculate_metric_object(l: &Option<&Self>, r: &Option<&Self>) -> Option<f32> {
        match (l, r) {
            (Some(a), Some(b)) => Some((a.0 - b.0).abs()),
            _ => None,
        }
    }
}

#[derive(Clone, Debug)]
pub enum WLookup {
    CounterAtLeast(i64),
    HistoryContains(u64),
    HasClass(u64),
}
impl LookupRequest<WAttrs, WObs> for WLookup {
    fn lookup(&self, attributes: &WAttrs, observations: &ObservationsDb<WObs>, merge_history: &[u64]) -> bool {
        match self {
            WLookup::CounterAtLeast(c) => attributes.counter >= *c,
            WLookup::HistoryContains(id) => merge_history.contains(id),
            WLookup::HasClass(c) => observations.contains_key(c),
        }
    }
}
pub fn lookup_model(q: &WLookup, t: &MTrack) -> bool {
    match q {
        WLookup::CounterAtLeast(c) => t.attrs.counter >= *c,
        WLookup::HistoryContains(id) => t.history.contains(id),
        WLookup::HasClass(c) => t.obs.contains_key(c),
    }
}

impl TrackAttributes<WAttrs, WObs> for WAttrs {
    type Update = WUpdate;
    type Lookup = WLookup;
    fn compatible(&self, other: &WAttrs) -> bool {
        self.compat == other.compat
    }
    fn merge(&mut self, other: &WAttrs) -> Result<()> {
        self.counter += other.counter;
        self.merges += 1;
        if other.merges as i64 == POISON || self.plan.ticket("attributes.merge") {
            return Err(anyhow!("injected: attributes.merge"));
        }
        Ok(())
    }
    fn baked(&self, _observations: &ObservationsDb<WObs>) -> Result<TrackStatus> {
        match self.status_code() {
            0 => Ok(TrackStatus::Pending),
            1 => Ok(TrackStatus::Ready),
            2 => Ok(TrackStatus::Wasted),
            _ => Err(anyhow!("status error")),
        }
    }
}

pub fn status_of(r: &Result<TrackStatus>) -> u8 {
    match r {
        Ok(TrackStatus::Pending) => 0,
        Ok(TrackStatus::Ready) => 1,
        Ok(TrackStatus::Wasted) => 2,
        Err(_) => 3,
    }
}

/// Metric with an internal state (the "metric state" of the property), reported through `metric()`.
#[derive(Clone, Debug)]
pub struct WMetric {
    pub state: u32,
    pub plan: Arc<FaultPlan>,
}
impl PartialEq for WMetric {
    fn eq(&self, o: &Self) -> bool {
        self.state == o.state
    }
}

pub fn feat_first(f: &Option<Feature>) -> Option<Vec<f32>> {
    f.as_ref().map(|x| Vec::from_vec(x))
}

impl ObservationMetric<WAttrs, WObs> for WMetric {
    fn metric(&self, mq: &MetricQuery<'_, WAttrs, WObs>) -> MetricOutput<f32> {
        let (c, t) = (mq.candidate_observation, mq.track_observation);
        // no metric value when neither side carries anything comparable
        let am = WObs::calculate_metric_object(&c.attr().as_ref(), &t.attr().as_ref());
        let fd = match (c.feature(), t.feature()) {
            (Some(x), Some(y)) => Some(similari::distance::euclidean(x, y) + self.state as f32 * 1000.0),
            _ => None,
        };
        // "no value for this pair" is an optimisation for clearly different observations; a pair without anything
        // comparable still yields a value, namely (None, None)
        match am {
            Some(d) if d > 6.0 => None,
            _ => Some((am, fd)),
        }
    }
    fn optimize(
        &mut self,
        _feature_class: u64,
        _merge_history: &[u64],
        attrs: &mut WAttrs,
        observations: &mut Vec<Observation<WObs>>,
        _prev_length: usize,
        is_merge: bool,
    ) -> Result<()> {
        let slow = self.plan.slow_us.load(Ordering::SeqCst);
        if slow > 0 {
            std::thread::sleep(std::time::Duration::from_micros(slow));
        }
        // mutate everything first so that a missing rollback is observable, then (maybe) fail
        let poisoned = observations.iter().any(|o| o.attr().as_ref().map(|a| a.0 == POISON as f32 || (is_merge && a.0 == POISON_MERGE as f32)).unwrap_or(false));
        observations.sort_by(|a, b| {
            let qa = a.attr().as_ref().map(|x| x.0).unwrap_or(-1.0);
            let qb = b.attr().as_ref().map(|x| x.0).unwrap_or(-1.0);
            qb.partial_cmp(&qa).unwrap()
        });
        // observations with a negative quality are discarded by the optimisation (a class can thereby become empty while
        // the track still knows it)
        observations.retain(|o| o.attr().as_ref().map(|x| x.0 >= 0.0).unwrap_or(true));
        observations.truncate(attrs.cap);
        attrs.optimized += 1;
        attrs.seen_metric_state = self.state;
        self.state += 1;
        if poisoned || self.plan.ticket("metric.optimize") {
            return Err(anyhow!("injected: metric.optimize"));
        }
        Ok(())
    }
    fn postprocess_distances(&self, unfiltered: Vec<similari::track::ObservationMetricOk<WObs>>) -> Vec<similari::track::ObservationMetricOk<WObs>> {
        if !self.plan.post_min.load(Ordering::SeqCst) {
            // a metric that does not post-process: whatever the trait's DEFAULT implementation does is what applies
            return TraitDefault.postprocess_distances(unfiltered);
        }
        let best = unfiltered.iter().filter_map(|r| r.feature_distance).fold(None, |m: Option<f32>, d| Some(m.map_or(d, |x| x.min(d))));
        match best {
            None => unfiltered,
            Some(b) => unfiltered.into_iter().filter(|r| r.feature_distance == Some(b)).collect(),
        }
    }
}

/// carries the library's default `postprocess_distances` (it overrides nothing but the two mandatory methods)
#[derive(Clone, Default)]
pub struct TraitDefault;
impl ObservationMetric<WAttrs, WObs> for TraitDefault {
    fn metric(&self, _mq: &MetricQuery<'_, WAttrs, WObs>) -> MetricOutput<f32> {
        None
    }
    fn optimize(&mut self, _feature_class: u64, _merge_history: &[u64], _attrs: &mut WAttrs, _observations: &mut Vec<Observation<WObs>>, _prev_length: usize, _is_merge: bool) -> Result<()> {
        Ok(())
    }
}

#[derive(Clone, Debug, Default)]
pub struct CountingNotifier {
    pub count: Arc<AtomicU64>,
}
impl ChangeNotifier for CountingNotifier {
    fn send(&mut self, _id: u64) {
        self.count.fetch_add(1, Ordering::SeqCst);
    }
}

pub type WTrack = Track<WAttrs, WMetric, WObs, CountingNotifier>;

/// one observation as plain data: (quality attribute, feature values)
pub type ObsData = (Option<f32>, Option<Vec<f32>>);

/// Plain-data snapshot of a track: everything the properties talk about.
#[derive(Clone, Debug, PartialEq)]
pub struct Snap {
    pub id: u64,
    pub attrs: (u8, i64, u32, u32, u32),
    pub obs: BTreeMap<u64, Vec<ObsData>>,
    pub history: Vec<u64>,
    pub metric_state: u32,
}

pub fn obs_data(o: &Observation<WObs>) -> ObsData {
    (o.attr().as_ref().map(|a| a.0), feat_first(o.feature()))
}

pub fn mk_feature(v: &[f32]) -> Feature {
    Feature::from_vec(v.to_vec())
}

pub const PROBE_CLASS: u64 = u64::MAX;

/// Read the (private) metric state of a track without a hook: run one benign observation on a *clone* with the
/// fault plan paused; optimize copies the metric state it starts from into the attributes.
pub fn probe_metric_state(t: &WTrack) -> u32 {
    let plan = t.get_attributes().plan.clone();
    let was = plan.paused.swap(true, Ordering::SeqCst);
    let mut c = t.clone();
    c.add_observation(PROBE_CLASS, Some(WObs(0.0)), None, None).expect("probe observation");
    plan.paused.store(was, Ordering::SeqCst);
    c.get_attributes().seen_metric_state
}

pub fn snap(t: &WTrack) -> Snap {
    let mut obs = BTreeMap::new();
    for c in t.get_feature_classes() {
        obs.insert(c, t.get_observations(c).unwrap().iter().map(obs_data).collect());
    }
    Snap { id: t.get_track_id(), attrs: t.get_attributes().key(), obs, history: t.get_merge_history().clone(), metric_state: probe_metric_state(t) }
}

// ------------------------------------------------------------------------------------------------
// sequential reference model

#[derive(Clone, Debug, PartialEq)]
pub struct MTrack {
    pub id: u64,
    pub attrs: WAttrs,
    pub obs: BTreeMap<u64, Vec<ObsData>>,
    pub metric: WMetric,
    pub history: Vec<u64>,
}

fn to_obs(o: &ObsData) -> Observation<WObs> {
    Observation::new(o.0.map(WObs), o.1.as_ref().map(|v| mk_feature(v)))
}

impl MTrack {
    pub fn new(id: u64, attrs: WAttrs, metric: WMetric) -> MTrack {
        MTrack { id, attrs, obs: BTreeMap::new(), metric, history: vec![id] }
    }
    pub fn snap(&self) -> Snap {
        Snap { id: self.id, attrs: self.attrs.key(), obs: self.obs.clone(), history: self.history.clone(), metric_state: self.metric.state }
    }
    fn run_optimize(&mut self, cls: u64, hist: &[u64], prev_len: usize, is_merge: bool) -> Result<()> {
        let mut v: Vec<Observation<WObs>> = self.obs[&cls].iter().map(to_obs).collect();
        let r = self.metric.optimize(cls, hist, &mut self.attrs, &mut v, prev_len, is_merge);
        self.obs.insert(cls, v.iter().map(obs_data).collect());
        r
    }
    /// all-or-nothing composition of update.apply -> push -> optimize
    pub fn add_observation(&mut self, cls: u64, oa: Option<f32>, feat: Option<Vec<f32>>, upd: Option<&WUpdate>) -> Result<()> {
        let backup = self.clone();
        if let Some(u) = upd {
            if let Err(e) = u.apply(&mut self.attrs) {
                *self = backup;
                return Err(e);
            }
        }
        if oa.is_none() && feat.is_none() {
            return Ok(());
        }
        // features are stored zero-padded to a multiple of 8
        let feat = feat.map(|v| Vec::from_vec(&mk_feature(&v)));
        self.obs.entry(cls).or_default().push((oa, feat));
        let prev = self.obs[&cls].len() - 1;
        let hist = self.history.clone();
        if let Err(e) = self.run_optimize(cls, &hist, prev, false) {
            *self = backup;
            return Err(e);
        }
        Ok(())
    }
    /// all-or-nothing merge; history = previous ++ source's, once, iff enabled and some requested class is
    /// present in either track
    pub fn merge(&mut self, other: &MTrack, classes: &[u64], merge_history: bool) -> Result<()> {
        let backup = self.clone();
        if let Err(e) = self.attrs.merge(&other.attrs) {
            *self = backup;
            return Err(e);
        }
        let new_hist: Vec<u64> = if merge_history { self.history.iter().chain(other.history.iter()).cloned().collect() } else { self.history.clone() };
        let mut any = false;
        for cls in classes {
            let prev = match (self.obs.contains_key(cls), other.obs.get(cls)) {
                (true, Some(src)) => {
                    let p = self.obs[cls].len();
                    self.obs.get_mut(cls).unwrap().extend(src.iter().cloned());
                    Some(p)
                }
                (false, Some(src)) => {
                    self.obs.insert(*cls, src.clone());
                    Some(0)
                }
                (true, None) => Some(self.obs[cls].len()),
                (false, None) => None,
            };
            if let Some(p) = prev {
                any = true;
                if let Err(e) = self.run_optimize(*cls, &new_hist, p, true) {
                    *self = backup;
                    return Err(e);
                }
            }
        }
        if any {
            self.history = new_hist;
        }
        Ok(())
    }
}

/// Sequential model of the store: a map id -> track.
pub struct MStore {
    pub tracks: BTreeMap<u64, MTrack>,
    pub default_attrs: WAttrs,
    pub metric: WMetric,
}

impl MStore {
    pub fn new(default_attrs: WAttrs, metric: WMetric) -> MStore {
        MStore { tracks: BTreeMap::new(), default_attrs, metric }
    }
    pub fn new_track(&self, id: u64) -> MTrack {
        MTrack::new(id, self.default_attrs.clone(), self.metric.clone())
    }
    pub fn add_track(&mut self, t: MTrack) -> Result<u64, ()> {
        if self.tracks.contains_key(&t.id) {
            Err(())
        } else {
            let id = t.id;
            self.tracks.insert(id, t);
            Ok(id)
        }
    }
    pub fn add(&mut self, id: u64, cls: u64, oa: Option<f32>, feat: Option<Vec<f32>>, upd: Option<&WUpdate>) -> Result<(), ()> {
        match self.tracks.get_mut(&id) {
            Some(t) => t.add_observation(cls, oa, feat, upd).map_err(|_| ()),
            None => {
                let mut t = self.new_track(id);
                t.add_observation(cls, oa, feat, upd).map_err(|_| ())?;
                self.tracks.insert(id, t);
                Ok(())
            }
        }
    }
    pub fn fetch(&mut self, ids: &[u64]) -> Vec<MTrack> {
        ids.iter().filter_map(|i| self.tracks.remove(i)).collect()
    }
    pub fn merge_external(&mut self, dest: u64, src: &MTrack, classes: Option<&[u64]>, hist: bool) -> Result<(), ()> {
        if !self.tracks.contains_key(&dest) {
            return Err(());
        }
        if dest == src.id {
            return Err(());
        }
        let cl: Vec<u64> = match classes {
            Some(c) if !c.is_empty() => c.to_vec(),
            _ => src.obs.keys().cloned().collect(),
        };
        self.tracks.get_mut(&dest).unwrap().merge(src, &cl, hist).map_err(|_| ())
    }
    /// Ok(Some(src)) removed, Ok(None) kept
    pub fn merge_owned(&mut self, dest: u64, src: u64, classes: Option<&[u64]>, remove: bool, hist: bool) -> Result<Option<MTrack>, ()> {
        let s = match self.tracks.get(&src) {
            Some(s) => s.clone(),
            None => return Err(()),
        };
        if dest == src {
            return Err(());
        }
        self.merge_external(dest, &s, classes, hist)?;
        if remove {
            self.tracks.remove(&src);
            Ok(Some(s))
        } else {
            Ok(None)
        }
    }
}

/// Build the library-side track corresponding to a model track (same plain data) through the public API only.
pub fn lib_attrs_like(m: &WAttrs, plan: Arc<FaultPlan>) -> WAttrs {
    let mut a = m.clone();
    a.plan = plan;
    a
}
