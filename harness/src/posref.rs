//! Independent re-derivation of the positional (SORT) association of one predict call from the observable
//! pre-call state: gates, weights and the exact maximum-weight assignment (C02 layer B; also the
//! "explain divergence" oracle of the differential monitors).
use crate::assign;
use crate::geom;
use crate::linalg::Mat;
use crate::trk::*;
use serde_json::{json, Value};

pub const CHI2_5DOF_95: f64 = 11.070;
pub const LIB_EPS: f64 = 0.00001;

#[derive(Clone, Debug)]
pub struct PairEval {
    /// Some(weight) = gated pair; None = not admissible
    pub weight: Option<f64>,
    pub decidable: bool,
    pub why: &'static str,
    pub margin: f64,
}

fn band(v: f64, thr: f64, rel: f64, abs: f64) -> bool {
    (v - thr).abs() <= rel * thr.abs() + abs
}

pub fn limit_for_gap(tables: &[Vec<(usize, f32)>], gap: usize) -> Option<f32> {
    // smallest configured gap >= probe; a gap configured twice keeps its first limit
    let mut best: Option<(usize, f32)> = None;
    for call in tables {
        for (g, l) in call {
            if *g >= gap {
                match best {
                    None => best = Some((*g, *l)),
                    Some((bg, _)) if *g < bg => best = Some((*g, *l)),
                    _ => {}
                }
            }
        }
    }
    best.map(|x| x.1)
}

pub fn dist_in_2r(a: &DBox, b: &DBox) -> f64 {
    let r = a.radius() + b.radius();
    let (dx, dy) = (a.xc as f64 - b.xc as f64, a.yc as f64 - b.yc as f64);
    (dx * dx + dy * dy).sqrt() / (r * r + LIB_EPS).sqrt()
}

/// squared Mahalanobis distance of a measurement from the projected raw filter state (library noise model)
pub fn maha_d2(kalman: &(Vec<f32>, Vec<f32>), z: &DBox, wp: f64) -> f64 {
    let (m, c) = kalman;
    let h = m[4] as f64;
    let r = [wp * h, wp * h, wp * h, 1e-1, wp * h];
    let mut s = Mat::zeros(5, 5);
    for i in 0..5 {
        for j in 0..5 {
            s.set(i, j, c[i * 10 + j] as f64 + if i == j { r[i] * r[i] } else { 0.0 });
        }
    }
    let zz = [z.xc as f64, z.yc as f64, z.angle.unwrap_or(0.0) as f64, z.aspect as f64, z.h as f64];
    let y = Mat::col(&(0..5).map(|i| zz[i] - m[i] as f64).collect::<Vec<_>>());
    y.t().mul(&s.inv().unwrap()).mul(&y).at(0, 0)
}

/// admissibility of (detection, track) before any metric: scene, idle limit, spatio-temporal constraints, reach
pub fn compat(cfg: &Cfg, det: &DBox, scene: u64, t: &LiveTrack, cur_epoch: usize) -> PairEval {
    if t.scene != scene {
        return PairEval { weight: None, decidable: true, why: "other-scene", margin: f64::INFINITY };
    }
    let gap = cur_epoch.saturating_sub(t.last_epoch);
    if cur_epoch < t.last_epoch || gap > cfg.max_idle {
        return PairEval { weight: None, decidable: true, why: "expired", margin: f64::INFINITY };
    }
    if let Some(tables) = &cfg.constraints {
        if let Some(lim) = limit_for_gap(tables, gap) {
            let d = dist_in_2r(det, &t.est);
            if band(d, lim as f64, 1e-4, 1e-7) {
                return PairEval { weight: None, decidable: false, why: "constraint-band", margin: 0.0 };
            }
            if d > lim as f64 {
                return PairEval { weight: None, decidable: true, why: "constraint", margin: d / lim as f64 };
            }
        }
    }
    PairEval { weight: Some(0.0), decidable: true, why: "compatible", margin: f64::INFINITY }
}

pub fn eval_pair(cfg: &Cfg, det: &DBox, scene: u64, t: &LiveTrack, cur_epoch: usize) -> PairEval {
    let c = compat(cfg, det, scene, t, cur_epoch);
    if c.weight.is_none() {
        return c;
    }
    // bounding-circle reach
    let r = det.radius() + t.est.radius();
    let (dx, dy) = (det.xc as f64 - t.est.xc as f64, det.yc as f64 - t.est.yc as f64);
    let d2 = dx * dx + dy * dy;
    if band(d2, r * r, 1e-5, 1e-9) {
        return PairEval { weight: None, decidable: false, why: "reach-band", margin: 0.0 };
    }
    if d2 > r * r {
        return PairEval { weight: None, decidable: true, why: "out-of-reach", margin: d2 / (r * r) };
    }
    let conf = (det.conf.max(cfg.min_conf)) as f64;
    match cfg.pos {
        PosMetric::IoU(thr) => {
            let (pa, pb) = (det.poly(), t.est.poly());
            let i = geom::intersection_area(&pa, &pb);
            if i <= 0.0 {
                return PairEval { weight: None, decidable: true, why: "no-overlap", margin: f64::INFINITY };
            }
            let iou = i / (det.area() + t.est.area() - i);
            let w = iou * conf;
            if band(w, thr as f64, 1e-4, 1e-6) {
                return PairEval { weight: None, decidable: false, why: "iou-band", margin: 0.0 };
            }
            if w >= thr as f64 {
                PairEval { weight: Some(w), decidable: true, why: "iou-gated", margin: w / thr as f64 }
            } else {
                PairEval { weight: None, decidable: true, why: "iou-below-threshold", margin: thr as f64 / w.max(1e-12) }
            }
        }
        PosMetric::Maha => {
            let k = match &t.kalman {
                Some(k) => k,
                None => return PairEval { weight: None, decidable: false, why: "no-filter-state", margin: 0.0 },
            };
            let d2m = maha_d2(k, det, cfg.wp as f64);
            if band(d2m, CHI2_5DOF_95, 2e-4, 1e-6) {
                return PairEval { weight: None, decidable: false, why: "chi2-band", margin: 0.0 };
            }
            if d2m <= CHI2_5DOF_95 {
                PairEval { weight: Some((100.0 - d2m) / conf), decidable: true, why: "maha-gated", margin: CHI2_5DOF_95 / d2m.max(1e-12) }
            } else {
                PairEval { weight: None, decidable: true, why: "chi2-gate", margin: d2m / CHI2_5DOF_95 }
            }
        }
    }
}

#[derive(Debug)]
pub enum Verdict {
    Ok { nontrivial: bool, opt: i64, greedy: i64, pairs_gated: usize },
    Undecidable(&'static str),
    Skipped(&'static str),
    Violation(String, Value),
}

/// `dets`/`recs`: detections of the call and the records returned for them (same order);
/// `tracks`: candidate tracks (pre-call snapshot) that take part in the positional stage.
pub fn check_positional(cfg: &Cfg, scene: u64, cur_epoch: usize, dets: &[DBox], assigned: &[Option<u64>], tracks: &[&LiveTrack]) -> Verdict {
    let n = dets.len();
    let m = tracks.len();
    if n == 0 {
        return Verdict::Ok { nontrivial: false, opt: 0, greedy: 0, pairs_gated: 0 };
    }
    if m > 600 {
        return Verdict::Skipped("more than 600 candidate tracks");
    }
    let mut w: Vec<Vec<Option<i64>>> = vec![vec![None; m]; n];
    let mut undec: Option<&'static str> = None;
    let mut maxw: f64 = cfg.threshold() as f64;
    let mut evals: Vec<Vec<Option<PairEval>>> = vec![vec![None; m]; n];
    let mut gated = 0;
    for i in 0..n {
        for j in 0..m {
            let e = eval_pair(cfg, &dets[i], scene, tracks[j], cur_epoch);
            if !e.decidable {
                undec = Some(e.why);
            }
            if let Some(x) = e.weight {
                w[i][j] = Some((x * 1e6).round() as i64);
                maxw = maxw.max(x);
                gated += 1;
            }
            evals[i][j] = Some(e);
        }
    }
    // 1. every continuation must be a clearly admissible pair
    let mut asg: Vec<Option<usize>> = vec![None; n];
    for i in 0..n {
        if let Some(id) = assigned[i] {
            match tracks.iter().position(|t| t.id == id) {
                None => return Verdict::Violation("continued-track-outside-candidate-set".into(), json!({"det": i, "track": id})),
                Some(j) => {
                    let e = evals[i][j].as_ref().unwrap();
                    if e.decidable && e.weight.is_none() {
                        return Verdict::Violation(format!("continued-ungated-pair/{}", e.why), json!({"det": i, "det_box": dets[i].js(), "track": id, "track_last_box": tracks[j].est.js(), "track_last_epoch": tracks[j].last_epoch, "epoch": cur_epoch, "margin": e.margin}));
                    }
                    asg[i] = Some(j);
                }
            }
        }
    }
    if let Some(wh) = undec {
        return Verdict::Undecidable(wh);
    }
    // 2. one-to-one and optimal
    let own = vec![(cfg.threshold() as f64 * 1e6).round() as i64; n];
    let obs = match assign::objective(&w, &own, &asg) {
        Some(o) => o,
        None => return Verdict::Violation("track-continued-twice".into(), json!({"assignment": assigned})),
    };
    // exact optimum per connected component of the gated pairs (a component with more than 16 tracks is not solved)
    let (opt, best) = match assign::best_assignment_sparse(&w, &own, 16) {
        Some(x) => x,
        None => return Verdict::Skipped("a connected component of gated pairs has more than 16 tracks"),
    };
    let greedy = assign::greedy(&w, &own);
    let tau = (n as f64 * (4.0 + 4e-7 * maxw * 1e6)).ceil() as i64;
    if opt - obs > tau {
        return Verdict::Violation(
            "suboptimal-assignment".into(),
            json!({"observed_objective": obs, "optimum": opt, "tolerance": tau, "observed": assigned, "an_optimal_assignment": best.iter().map(|b| b.map(|j| tracks[j].id)).collect::<Vec<_>>(),
                "weights_x1e6": w, "threshold_x1e6": own[0], "dets": dets.iter().map(|d| d.js()).collect::<Vec<_>>(), "tracks": tracks.iter().map(|t| json!({"id": t.id, "last_box": t.est.js(), "last_epoch": t.last_epoch})).collect::<Vec<_>>()}),
        );
    }
    Verdict::Ok { nontrivial: opt - greedy > 10 * tau, opt, greedy, pairs_gated: gated }
}

// ------------------------------------------------------------------------------------------------
// VisualSORT decisions (C12)

#[derive(Clone, Copy, Debug, PartialEq)]
pub enum Tri {
    Yes,
    No,
    Band,
}

fn ge_input(v: f64, thr: f64) -> Tri {
    // both sides are inputs (exactly representable): exact comparison
    if v >= thr {
        Tri::Yes
    } else {
        Tri::No
    }
}
fn ge_computed(v: f64, thr: f64, rel: f64) -> Tri {
    if v == thr {
        return Tri::Yes;
    }
    if (v - thr).abs() <= rel * thr.abs().max(1e-9) {
        return Tri::Band;
    }
    if v > thr {
        Tri::Yes
    } else {
        Tri::No
    }
}
fn and3(a: Tri, b: Tri) -> Tri {
    match (a, b) {
        (Tri::No, _) | (_, Tri::No) => Tri::No,
        (Tri::Band, _) | (_, Tri::Band) => Tri::Band,
        _ => Tri::Yes,
    }
}

pub fn own_area_enabled(cfg: &Cfg) -> bool {
    cfg.vis.own_use + cfg.vis.own_collect > 0.0
}

pub static OWN_SHARES_BY_REFERENCE: std::sync::atomic::AtomicU64 = std::sync::atomic::AtomicU64::new(0);
pub static OWN_SHARES_BY_LIBRARY: std::sync::atomic::AtomicU64 = std::sync::atomic::AtomicU64::new(0);

/// own-area shares of the call's boxes as the library function reports them (its correctness is C15's business; C15's
/// tracker section compares the share recorded with a track against this)
pub fn own_shares_lib(dets: &[Det]) -> Vec<f32> {
    use similari::utils::clipping::bbox_own_areas::{exclusively_owned_areas, exclusively_owned_areas_normalized_shares};
    let boxes: Vec<similari::prelude::Universal2DBox> = dets.iter().map(|d| d.b.lib()).collect();
    let refs: Vec<&similari::prelude::Universal2DBox> = boxes.iter().collect();
    exclusively_owned_areas_normalized_shares(&refs, &exclusively_owned_areas(&refs))
}

/// own-area shares the thresholds are judged with: the f64 inclusion-exclusion reference over the boxes' polygons (a box
/// with more than 12 overlapping neighbours falls back to the library value)
pub fn own_shares(dets: &[Det]) -> Vec<f32> {
    let polys: Vec<Vec<crate::geom::P>> = dets.iter().map(|d| d.b.poly()).collect();
    let mut lib: Option<Vec<f32>> = None;
    (0..dets.len())
        .map(|i| {
            let others: Vec<Vec<crate::geom::P>> = (0..dets.len()).filter(|j| *j != i && crate::geom::intersection_area(&polys[i], &polys[*j]) > 0.0).map(|j| polys[j].clone()).collect();
            if others.len() > 12 {
                OWN_SHARES_BY_LIBRARY.fetch_add(1, std::sync::atomic::Ordering::Relaxed);
                return lib.get_or_insert_with(|| own_shares_lib(dets))[i];
            }
            OWN_SHARES_BY_REFERENCE.fetch_add(1, std::sync::atomic::Ordering::Relaxed);
            let a = crate::geom::shoelace(&polys[i]).abs();
            (crate::geom::uncovered_area(&polys[i], &others) / a).clamp(0.0, 1.0) as f32
        })
        .collect()
}

pub fn usable(cfg: &Cfg, d: &Det, share: Option<f32>, q_thr: f32, own_thr: f32) -> Tri {
    let area = ge_computed(d.b.area(), cfg.vis.min_area as f64, 1e-6);
    let q = ge_input(d.quality.unwrap_or(1.0) as f64, q_thr as f64);
    let own = match share {
        Some(p) => ge_computed(p as f64, own_thr as f64, 1e-3),
        None => Tri::Yes,
    };
    and3(and3(area, q), own)
}

fn pad8(v: &[f32]) -> Vec<f64> {
    let mut p: Vec<f64> = v.iter().map(|x| *x as f64).collect();
    while p.len() % 8 != 0 || p.is_empty() {
        p.push(0.0);
    }
    p
}

/// (distance as used for weights, within-threshold?) for one feature pair
pub fn feature_distance(cfg: &Cfg, a: &[f32], b: &[f32]) -> (f64, Tri) {
    let (pa, pb) = (pad8(a), pad8(b));
    let n = pa.len().min(pb.len());
    match cfg.vis.metric {
        VisMetric::Euclid(t) => {
            let d = (0..n).map(|i| (pa[i] - pb[i]).powi(2)).sum::<f64>().sqrt();
            // ok iff d <= t
            let tri = match ge_computed(t as f64, d, 1e-5) {
                x => x,
            };
            (d, tri)
        }
        VisMetric::Cosine(t) => {
            let dot: f64 = (0..n).map(|i| pa[i] * pb[i]).sum();
            let na: f64 = (0..n).map(|i| pa[i] * pa[i]).sum();
            let nb: f64 = (0..n).map(|i| pb[i] * pb[i]).sum();
            let c = dot / (na * nb).sqrt();
            (1.0 - c, ge_computed(c, t as f64, 1e-5))
        }
    }
}

#[derive(Clone, Debug)]
pub struct Claim {
    pub det: usize,
    pub track: u64,
    pub votes: usize,
    pub weight: f64,
}

pub struct VisualEval {
    pub claims: Vec<Claim>,
    pub undecidable: Option<&'static str>,
    pub contests: usize,
    pub usable: Vec<Tri>,
}

pub fn eval_visual(cfg: &Cfg, scene: u64, epoch: usize, dets: &[Det], cands: &[&LiveTrack], shares: &Option<Vec<f32>>) -> VisualEval {
    let mut undec = None;
    let mut usable_v = vec![];
    // all emitted distances (for "largest distance seen")
    let mut emitted: Vec<(usize, usize, f64)> = vec![];
    for (i, d) in dets.iter().enumerate() {
        let u = usable(cfg, d, shares.as_ref().map(|s| s[i]), cfg.vis.q_use, cfg.vis.own_use);
        usable_v.push(u);
        let f = match &d.feature {
            Some(f) => f,
            None => continue,
        };
        if u == Tri::No {
            continue;
        }
        for (j, t) in cands.iter().enumerate() {
            let c = compat(cfg, &d.b, scene, t, epoch);
            if !c.decidable {
                undec = Some("constraint-band");
                continue;
            }
            if c.weight.is_none() {
                continue;
            }
            // "the track has collected at least the minimal number of features": the features actually stored in the
            // gallery count, not the counter the track reports (their agreement is C13's business)
            let stored = t.gallery.iter().filter(|g| g.feature.is_some()).count();
            if stored < cfg.vis.min_track_len {
                continue;
            }
            for g in &t.gallery {
                if let Some(gf) = &g.feature {
                    let (dist, ok) = feature_distance(cfg, f, gf);
                    match ok {
                        Tri::Yes => {
                            if u == Tri::Band {
                                undec = Some("usable-band");
                            } else {
                                emitted.push((i, j, dist));
                            }
                        }
                        Tri::Band => undec = Some("feature-distance-band"),
                        Tri::No => {}
                    }
                }
            }
        }
    }
    let max_seen = emitted.iter().map(|e| e.2).fold(-1.0f64, f64::max);
    // noise of a whole weight: (largest number of votes of a claim) x 1e-5 x (largest distance)
    let max_votes = {
        let mut m: std::collections::HashMap<(usize, usize), usize> = std::collections::HashMap::new();
        for (i, j, _) in &emitted {
            *m.entry((*i, *j)).or_default() += 1;
        }
        m.values().cloned().max().unwrap_or(1)
    };
    // (the ABSOLUTE error of a distance does not shrink with the distance: 1 - cos is computed from a similarity near 1, a
    // Euclidean distance from coordinates of unit magnitude)
    VOTE_NOISE.with(|n| n.set(max_votes as f64 * 2e-6 * max_seen.max(1.0)));
    let mut claims: Vec<Claim> = vec![];
    for (i, j, d) in &emitted {
        match claims.iter_mut().find(|c| c.det == *i && c.track == cands[*j].id) {
            Some(c) => {
                c.votes += 1;
                c.weight += max_seen - d;
            }
            None => claims.push(Claim { det: *i, track: cands[*j].id, votes: 1, weight: max_seen - d }),
        }
    }
    claims.retain(|c| c.votes >= cfg.vis.min_votes);
    let mut per_track: std::collections::HashMap<u64, usize> = std::collections::HashMap::new();
    for c in &claims {
        *per_track.entry(c.track).or_default() += 1;
    }
    let contests = per_track.values().filter(|n| **n >= 2).count();
    VisualEval { claims, undecidable: undec, contests, usable: usable_v }
}

pub enum VVerdict {
    Ok { claims: usize, contests: usize, visual_attachments: usize, positional_checked: bool, positional_nontrivial: bool },
    Undecidable(&'static str),
    Violation(String, Value),
}

thread_local! {
    /// absolute rounding noise of one vote's weight in the call under evaluation (set by `eval_visual`)
    static VOTE_NOISE: std::cell::Cell<f64> = std::cell::Cell::new(0.0);
}

/// A weight is sum(largest emitted distance - d) over the votes; the library computes every feature distance in f32
/// (SIMD, relative error up to ~1e-5 by C16's own tolerance), so a weight carries an ABSOLUTE error of about
/// votes x 2e-6 x max(largest distance, 1) whatever its own magnitude (features have unit scale). Two weights are clearly ordered only beyond that noise
/// (and beyond 1e-4 relative).
fn clearly_greater(a: f64, b: f64) -> bool {
    let noise = VOTE_NOISE.with(|n| n.get());
    a > b && (a - b) > (1e-4 * a.abs().max(b.abs())).max(noise).max(1e-9)
}

pub fn check_visual_call(cfg: &Cfg, scene: u64, epoch: usize, dets: &[Det], recs: &[Rec], pre: &[LiveTrack]) -> VVerdict {
    let pre_ids: std::collections::HashSet<u64> = pre.iter().map(|t| t.id).collect();
    let assigned: Vec<Option<u64>> = recs.iter().map(|r| if pre_ids.contains(&r.id) { Some(r.id) } else { None }).collect();
    let cont: std::collections::HashSet<u64> = assigned.iter().flatten().cloned().collect();
    let cands: Vec<&LiveTrack> = pre.iter().filter(|t| t.scene == scene && (epoch <= t.last_epoch + cfg.max_idle || cont.contains(&t.id))).collect();
    let shares = if own_area_enabled(cfg) { Some(own_shares(dets)) } else { None };
    let ev = eval_visual(cfg, scene, epoch, dets, &cands, &shares);
    // structural: a visual record must be a continuation
    for (i, r) in recs.iter().enumerate() {
        if r.visual && assigned[i].is_none() {
            // a new track reports the default (positional) voting type... unless it lost a contest: the library marks
            // losers as visual winners of "themselves"; the record of a fresh track carries no voting type -> positional
            return VVerdict::Violation("new-track-reported-as-visual".into(), json!({"det": i, "record": r.js()}));
        }
    }
    if let Some(w) = ev.undecidable {
        return VVerdict::Undecidable(w);
    }
    let claims_of = |i: usize| -> Vec<&Claim> {
        let mut v: Vec<&Claim> = ev.claims.iter().filter(|c| c.det == i).collect();
        v.sort_by(|a, b| b.weight.partial_cmp(&a.weight).unwrap());
        v
    };
    let claimants_of = |t: u64| -> Vec<&Claim> {
        let mut v: Vec<&Claim> = ev.claims.iter().filter(|c| c.track == t).collect();
        v.sort_by(|a, b| b.weight.partial_cmp(&a.weight).unwrap());
        v
    };
    let ctx = |extra: Value| {
        json!({"extra": extra, "claims[det,track,votes,weight]": ev.claims.iter().map(|c| json!([c.det, c.track, c.votes, c.weight])).collect::<Vec<_>>(),
        "dets": dets.iter().map(|d| d.js()).collect::<Vec<_>>(), "records": recs.iter().map(|r| json!([r.id, r.visual])).collect::<Vec<_>>(), "usable": format!("{:?}", ev.usable), "own_shares": shares,
        "tracks": cands.iter().map(|t| json!({"id": t.id, "collected": t.collected_count, "gallery": t.gallery.iter().map(|g| json!([g.feature, g.quality])).collect::<Vec<_>>(), "last_epoch": t.last_epoch})).collect::<Vec<_>>()})
    };
    let mut visual_attachments = 0;
    for (i, r) in recs.iter().enumerate() {
        if let Some(tid) = assigned[i] {
            let my = ev.claims.iter().find(|c| c.det == i && c.track == tid);
            if r.visual {
                visual_attachments += 1;
                // (a) visual only for a qualifying claim of the greatest-weight claimant
                match my {
                    None => {
                        let why = if ev.usable[i] == Tri::No { "feature-not-usable" } else if dets[i].feature.is_none() { "no-feature" } else { "no-qualifying-claim" };
                        return VVerdict::Violation(format!("visual-attachment-without-claim/{}", why), ctx(json!({"det": i, "track": tid})));
                    }
                    Some(c) => {
                        let cl = claimants_of(tid);
                        if cl[0].det != i && clearly_greater(cl[0].weight, c.weight) {
                            return VVerdict::Violation("visual-attachment-to-lesser-claimant".into(), ctx(json!({"det": i, "track": tid})));
                        }
                    }
                }
            } else if let Some(c) = my {
                // (c) a claimant that is attached positionally to a track it claimed
                let cl = claimants_of(tid);
                if cl[0].det != i && clearly_greater(cl[0].weight, c.weight) {
                    return VVerdict::Violation("loser-attached-to-contested-track".into(), ctx(json!({"det": i, "track": tid})));
                }
                if cl[0].det == i && (cl.len() == 1 || clearly_greater(c.weight, cl[1].weight)) && claims_of(i)[0].track == tid {
                    return VVerdict::Violation("appearance-winner-reported-as-positional".into(), ctx(json!({"det": i, "track": tid})));
                }
            }
        }
    }
    // (b) the clear top claimant of its own clear best claim must get the track by appearance
    for i in 0..dets.len() {
        let mine = claims_of(i);
        if mine.is_empty() {
            continue;
        }
        if mine.len() > 1 && !clearly_greater(mine[0].weight, mine[1].weight) {
            continue;
        }
        let t = mine[0].track;
        let cl = claimants_of(t);
        if cl[0].det != i {
            continue;
        }
        if cl.len() > 1 && !clearly_greater(cl[0].weight, cl[1].weight) {
            continue;
        }
        if !(assigned[i] == Some(t) && recs[i].visual) {
            return VVerdict::Violation("best-appearance-claim-not-honoured".into(), ctx(json!({"det": i, "track": t, "got": [recs[i].id, recs[i].visual as u64]})));
        }
    }
    // (d) detections without any claim: optimal positional assignment among tracks not taken by appearance
    let taken: std::collections::HashSet<u64> = recs.iter().enumerate().filter(|(i, r)| r.visual && assigned[*i].is_some()).map(|(_, r)| r.id).collect();
    let no_claim: Vec<usize> = (0..dets.len()).filter(|i| claims_of(*i).is_empty()).collect();
    let pos_tracks: Vec<&LiveTrack> = cands.iter().filter(|t| !taken.contains(&t.id)).cloned().collect();
    let boxes: Vec<DBox> = no_claim.iter().map(|i| dets[*i].b).collect();
    let asg: Vec<Option<u64>> = no_claim.iter().map(|i| assigned[*i]).collect();
    for (k, i) in no_claim.iter().enumerate() {
        if recs[*i].visual {
            return VVerdict::Violation("visual-attachment-without-claim/no-claim".into(), ctx(json!({"det": i})));
        }
        if let Some(t) = asg[k] {
            if taken.contains(&t) {
                return VVerdict::Violation("positional-attachment-to-track-taken-by-appearance".into(), ctx(json!({"det": i, "track": t})));
            }
        }
    }
    // tracks continued by claimants positionally (a claimant attached to a track it did not claim) are removed too
    let claimant_tracks: std::collections::HashSet<u64> = (0..dets.len()).filter(|i| !claims_of(*i).is_empty()).filter_map(|i| assigned[i]).collect();
    let pos_tracks: Vec<&LiveTrack> = pos_tracks.into_iter().filter(|t| !claimant_tracks.contains(&t.id) || taken.contains(&t.id)).collect();
    let mut positional_checked = false;
    let mut positional_nontrivial = false;
    match check_positional(cfg, scene, epoch, &boxes, &asg, &pos_tracks) {
        Verdict::Ok { nontrivial, .. } => {
            positional_checked = true;
            positional_nontrivial = nontrivial;
        }
        Verdict::Undecidable(w) => return VVerdict::Undecidable(w),
        Verdict::Skipped(_) => {}
        Verdict::Violation(sig, d) => return VVerdict::Violation(format!("positional-stage/{}", sig), json!({"detail": d, "ctx": ctx(json!({"dets_without_claim": no_claim}))})),
    }
    VVerdict::Ok { claims: ev.claims.len(), contests: ev.contests, visual_attachments, positional_checked, positional_nontrivial }
}

// ------------------------------------------------------------------------------------------------
// "explain divergence": is the outcome of one call a valid (gated, optimal) association per the references?

pub enum Judgement {
    Valid,
    Undecidable(&'static str),
    Invalid(String, Value),
}

pub fn judge_call(cfg: &Cfg, scene: u64, epoch: usize, dets: &[Det], recs: &[Rec], pre: &[LiveTrack]) -> Judgement {
    if recs.len() != dets.len() {
        return Judgement::Invalid("record-count".into(), json!({"dets": dets.len(), "records": recs.len()}));
    }
    if cfg.kind.is_visual() {
        match check_visual_call(cfg, scene, epoch, dets, recs, pre) {
            VVerdict::Ok { .. } => Judgement::Valid,
            VVerdict::Undecidable(w) => Judgement::Undecidable(w),
            VVerdict::Violation(s, d) => Judgement::Invalid(s, d),
        }
    } else {
        let ids: std::collections::HashSet<u64> = pre.iter().map(|t| t.id).collect();
        let assigned: Vec<Option<u64>> = recs.iter().map(|r| if ids.contains(&r.id) { Some(r.id) } else { None }).collect();
        let cont: std::collections::HashSet<u64> = assigned.iter().flatten().cloned().collect();
        let cands: Vec<&LiveTrack> = pre.iter().filter(|t| t.scene == scene && (epoch <= t.last_epoch + cfg.max_idle || cont.contains(&t.id))).collect();
        // a continuation of a track outside the scene is invalid per se
        for a in assigned.iter().flatten() {
            if let Some(t) = pre.iter().find(|t| t.id == *a) {
                if t.scene != scene {
                    return Judgement::Invalid("continued-track-of-another-scene".into(), json!({"track": a, "track_scene": t.scene, "scene": scene}));
                }
            }
        }
        match check_positional(cfg, scene, epoch, &dets.iter().map(|d| d.b).collect::<Vec<_>>(), &assigned, &cands) {
            Verdict::Ok { .. } => Judgement::Valid,
            Verdict::Undecidable(w) => Judgement::Undecidable(w),
            Verdict::Skipped(w) => Judgement::Undecidable(w),
            Verdict::Violation(s, d) => Judgement::Invalid(s, d),
        }
    }
}

/// grouping-only comparison of two record lists under an incrementally built id bijection
pub fn same_grouping(a: &[Rec], b: &[Rec], map: &std::collections::HashMap<u64, u64>, rev: &std::collections::HashMap<u64, u64>) -> bool {
    if a.len() != b.len() {
        return false;
    }
    let mut m = map.clone();
    let mut r = rev.clone();
    for (x, y) in a.iter().zip(b.iter()) {
        match (m.get(&x.id), r.get(&y.id)) {
            (None, None) => {
                m.insert(x.id, y.id);
                r.insert(y.id, x.id);
            }
            (Some(p), Some(q)) if *p == y.id && *q == x.id => {}
            _ => return false,
        }
    }
    true
}


/// Pipelined re-run of a judged sequential history on a batch tracker: the same calls are submitted back to back as
/// one-scene batches whose results are read by consumer threads (the second retrieval discipline the batch API allows),
/// in two thirds of the passes with every store write of the voting threads stalled at the guarded schedule point. A
/// correct tracker associates call k against exactly the state the sequential run had before call k, so each pipelined
/// outcome - ids translated through the bijection built so far - is judged against that snapshot by the same gate /
/// constraint / optimal-assignment reference. `log`: (scene, detections, sequential records, pre-call snapshot, epoch).
pub fn pipelined_pass(cfg: &Cfg, log: &[(u64, Vec<Det>, Vec<Rec>, Vec<LiveTrack>, usize)], ctl: Option<&crate::sched::Controller>, rng: &mut crate::Rng, rep: &mut crate::Report, counter_prefix: &str) -> Option<(String, Value)> {
    let mut t2 = AnyTracker::new(cfg);
    if let Some(c) = ctl {
        if rng.chance(0.67) {
            c.set_mode(crate::sched::Mode::Stall { site: "vote.store_write", us: 100 + rng.below(1400), seed: rng.u64() });
            rep.count(&format!("{}pipelined_passes_with_stalled_store_writes", counter_prefix));
        } else {
            c.set_mode(crate::sched::Mode::Record);
        }
    }
    let rxs: Vec<_> = log.iter().map(|(scene, dets, _, _, _)| t2.submit_with_consumer(&[(*scene, dets.clone())])).collect();
    let mut to_seq: std::collections::HashMap<u64, u64> = std::collections::HashMap::new();
    let mut verdict = None;
    for (ci, (rx, (scene, dets, srecs, pre, epoch))) in rxs.into_iter().zip(log.iter()).enumerate() {
        let precs = match rx.recv() {
            Ok(mut v) if v.len() == 1 => v.pop().unwrap().1,
            _ => {
                verdict = Some(("result-never-delivered".to_string(), json!({"call": ci})));
                break;
            }
        };
        rep.count(&format!("{}pipelined_calls_compared", counter_prefix));
        let translated: Vec<Rec> = precs.iter().map(|r| {
            let mut t = r.clone();
            t.id = to_seq.get(&r.id).cloned().unwrap_or((1u64 << 62) | r.id);
            t
        }).collect();
        // same association as the judged sequential call?
        let same = translated.len() == srecs.len() && translated.iter().zip(srecs.iter()).all(|(p, q)| p.id == q.id || (p.id >> 62 == 1 && !pre.iter().any(|t| t.id == q.id)));
        if same {
            for (p, q) in precs.iter().zip(srecs.iter()) {
                to_seq.insert(p.id, q.id);
            }
            continue;
        }
        match judge_call(cfg, *scene, *epoch, dets, &translated, pre) {
            Judgement::Invalid(sig, d) => {
                verdict = Some((sig, json!({"call": ci, "scene": scene, "epoch": epoch, "detail": d, "sequential_records[id]": srecs.iter().map(|r| r.id).collect::<Vec<_>>(), "pipelined_records[id translated]": translated.iter().map(|r| r.id).collect::<Vec<_>>()})));
            }
            _ => rep.count(&format!("{}pipelined_divergences_valid_or_undecidable", counter_prefix)),
        }
        break;
    }
    drop(t2);
    if let Some(c) = ctl {
        let _ = c.finish();
    }
    verdict
}
