//! Independent re-derivation of the positional (SORT) association of one predict call from the observable
//! pre-call state: gates, weights and the exact maximum-weight assignment (C02 layer B; also the
//! "explain divergence" oracle of the differential monitors).
use crate::assign;
use crate::geom;
use crate::linalg::Mat;
use crate::trk::*;
use serde_json::{json, Value};

pub const CHI2_5DOF_95: f64 = 11.070;
pub const LIB_EPS: f64 = 0.00001;

#[derive(Clone, Debug)]
pub struct PairEval {
    /// Some(weight) = gated pair; None = not admissible
    pub weight: Option<f64>,
    pub decidable: bool,
    pub why: &'static str,
    pub margin: f64,
}

fn band(v: f64, thr: f64, rel: f64, abs: f64) -> bool {
    (v - thr).abs() <= rel * thr.abs() + abs
}

pub fn limit_for_gap(tables: &[Vec<(usize, f32)>], gap: usize) -> Option<f32> {
    // smallest configured gap >= probe; a gap configured twice keeps its first limit
    let mut best: Option<(usize, f32)> = None;
    for call in tables {
        for (g, l) in call {
            if *g >= gap {
                match best {
                    None => best = Some((*g, *l)),
                    Some((bg, _)) if *g < bg => best = Some((*g, *l)),
                    _ => {}
                }
            }
        }
    }
    best.map(|x| x.1)
}

pub fn dist_in_2r(a: &DBox, b: &DBox) -> f64 {
    let r = a.radius() + b.radius();
    let (dx, dy) = (a.xc as f64 - b.xc as f64, a.yc as f64 - b.yc as f64);
    (dx * dx + dy * dy).sqrt() / (r * r + LIB_EPS).sqrt()
}

/// squared Mahalanobis distance of a measurement from the projected raw filter state (library noise model)
pub fn maha_d2(kalman: &(Vec<f32>, Vec<f32>), z: &DBox, wp: f64) -> f64 {
    let (m, c) = kalman;
    let h = m[4] as f64;
    let r = [wp * h, wp * h, wp * h, 1e-1, wp * h];
    let mut s = Mat::zeros(5, 5);
    for i in 0..5 {
        for j in 0..5 {
            s.set(i, j, c[i * 10 + j] as f64 + if i == j { r[i] * r[i] } else { 0.0 });
        }
    }
    let zz = [z.xc as f64, z.yc as f64, z.angle.unwrap_or(0.0) as f64, z.aspect as f64, z.h as f64];
    let y = Mat::col(&(0..5).map(|i| zz[i] - m[i] as f64).collect::<Vec<_>>());
    y.t().mul(&s.inv().unwrap()).mul(&y).at(0, 0)
}

/// admissibility of (detection, track) before any metric: scene, idle limit, spatio-temporal constraints, reach
pub fn compat(cfg: &Cfg, det: &DBox, scene: u64, t: &LiveTrack, cur_epoch: usize) -> PairEval {
    if t.scene != scene {
        return PairEval { weight: None, decidable: true, why: "other-scene", margin: f64::INFINITY };
    }
    let gap = cur_epoch.saturating_sub(t.last_epoch);
    if cur_epoch < t.last_epoch || gap > cfg.max_idle {
        return PairEval { weight: None, decidable: true, why: "expired", margin: f64::INFINITY };
    }
    if let Some(tables) = &cfg.constraints {
        if let Some(lim) = limit_for_gap(tables, gap) {
            let d = dist_in_2r(det, &t.est);
            if band(d, lim as f64, 1e-4, 1e-7) {
                return PairEval { weight: None, decidable: false, why: "constraint-band", margin: 0.0 };
            }
            if d > lim as f64 {
                return PairEval { weight: None, decidable: true, why: "constraint", margin: d / lim as f64 };
            }
        }
    }
    PairEval { weight: Some(0.0), decidable: true, why: "compatible", margin: f64::INFINITY }
}

pub fn eval_pair(cfg: &Cfg, det: &DBox, scene: u64, t: &LiveTrack, cur_epoch: usize) -> PairEval {
    let c = compat(cfg, det, scene, t, cur_epoch);
    if c.weight.is_none() {
        return c;
    }
    // bounding-circle reach
    let r = det.radius() + t.est.radius();
    let (dx, dy) = (det.xc as f64 - t.est.xc as f64, det.yc as f64 - t.est.yc as f64);
    let d2 = dx * dx + dy * dy;
    if band(d2, r * r, 1e-5, 1e-9) {
        return PairEval { weight: None, decidable: false, why: "reach-band", margin: 0.0 };
    }
    if d2 > r * r {
        return PairEval { weight: None, decidable: true, why: "out-of-reach", margin: d2 / (r * r) };
    }
    let conf = (det.conf.max(cfg.min_conf)) as f64;
    match cfg.pos {
        PosMetric::IoU(thr) => {
            let (pa, pb) = (det.poly(), t.est.poly());
            let i = geom::intersection_area(&pa, &pb);
            if i <= 0.0 {
                return PairEval { weight: None, decidable: true, why: "no-overlap", margin: f64::INFINITY };
            }
            let iou = i / (det.area() + t.est.area() - i);
            let w = iou * conf;
            if band(w, thr as f64, 1e-4, 1e-6) {
                return PairEval { weight: None, decidable: false, why: "iou-band", margin: 0.0 };
            }
            if w >= thr as f64 {
                PairEval { weight: Some(w), decidable: true, why: "iou-gated", margin: w / thr as f64 }
            } else {
                PairEval { weight: None, decidable: true, why: "iou-below-threshold", margin: thr as f64 / w.max(1e-12) }
            }
        }
        PosMetric::Maha => {
            let k = match &t.kalman {
                Some(k) => k,
                None => return PairEval { weight: None, decidable: false, why: "no-filter-state", margin: 0.0 },
            };
            let d2m = maha_d2(k, det, cfg.wp as f64);
            if band(d2m, CHI2_5DOF_95, 2e-4, 1e-6) {
                return PairEval { weight: None, decidable: false, why: "chi2-band", margin: 0.0 };
            }
            if d2m <= CHI2_5DOF_95 {
                PairEval { weight: Some((100.0 - d2m) / conf), decidable: true, why: "maha-gated", margin: CHI2_5DOF_95 / d2m.max(1e-12) }
            } else {
                PairEval { weight: None, decidable: true, why: "chi2-gate", margin: d2m / CHI2_5DOF_95 }
            }
        }
    }
}

#[derive(Debug)]
pub enum Verdict {
    Ok { nontrivial: bool, opt: i64, greedy: i64, pairs_gated: usize },
    Undecidable(&'static str),
    Skipped(&'static str),
    Violation(String, Value),
}

/// `dets`/`recs`: detections of the call and the records returned for them (same order);
/// `tracks`: candidate tracks (pre-call snapshot) that take part in the positional stage.
pub fn check_positional(cfg: &Cfg, scene: u64, cur_epoch: usize, dets: &[DBox], assigned: &[Option<u64>], tracks: &[&LiveTrack]) -> Verdict {
    let n = dets.len();
    let m = tracks.len();
    if n == 0 {
        return Verdict::Ok { nontrivial: false, opt: 0, greedy: 0, pairs_gated: 0 };
    }
    if m > 16 {
        return Verdict::Skipped("more than 16 candidate tracks");
    }
    let mut w: Vec<Vec<Option<i64>>> = vec![vec![None; m]; n];
    let mut undec: Option<&'static str> = None;
    let mut maxw: f64 = cfg.threshold() as f64;
    let mut evals: Vec<Vec<Option<PairEval>>> = vec![vec![None; m]; n];
    let mut gated = 0;
    for i in 0..n {
        for j in 0..m {
            let e = eval_pair(cfg, &dets[i], scene, tracks[j], cur_epoch);
            if !e.decidable {
                undec = Some(e.why);
            }
            if let Some(x) = e.weight {
                w[i][j] = Some((x * 1e6).round() as i64);
                maxw = maxw.max(x);
                gated += 1;
            }
            evals[i][j] = Some(e);
        }
    }
    // 1. every continuation must be a clearly admissible pair
    let mut asg: Vec<Option<usize>> = vec![None; n];
    for i in 0..n {
        if let Some(id) = assigned[i] {
            match tracks.iter().position(|t| t.id == id) {
                None => return Verdict::Violation("continued-track-outside-candidate-set".into(), json!({"det": i, "track": id})),
                Some(j) => {
                    let e = evals[i][j].as_ref().unwrap();
                    if e.decidable && e.weight.is_none() {
                        return Verdict::Violation(format!("continued-ungated-pair/{}", e.why), json!({"det": i, "det_box": dets[i].js(), "track": id, "track_last_box": tracks[j].est.js(), "track_last_epoch": tracks[j].last_epoch, "epoch": cur_epoch, "margin": e.margin}));
                    }
                    asg[i] = Some(j);
                }
            }
        }
    }
    if let Some(wh) = undec {
        return Verdict::Undecidable(wh);
    }
    // 2. one-to-one and optimal
    let own = vec![(cfg.threshold() as f64 * 1e6).round() as i64; n];
    let obs = match assign::objective(&w, &own, &asg) {
        Some(o) => o,
        None => return Verdict::Violation("track-continued-twice".into(), json!({"assignment": assigned})),
    };
    let (opt, best) = assign::best_assignment(&w, &own);
    let greedy = assign::greedy(&w, &own);
    let tau = (n as f64 * (4.0 + 4e-7 * maxw * 1e6)).ceil() as i64;
    if opt - obs > tau {
        return Verdict::Violation(
            "suboptimal-assignment".into(),
            json!({"observed_objective": obs, "optimum": opt, "tolerance": tau, "observed": assigned, "an_optimal_assignment": best.iter().map(|b| b.map(|j| tracks[j].id)).collect::<Vec<_>>(),
                "weights_x1e6": w, "threshold_x1e6": own[0], "dets": dets.iter().map(|d| d.js()).collect::<Vec<_>>(), "tracks": tracks.iter().map(|t| json!({"id": t.id, "last_box": t.est.js(), "last_epoch": t.last_epoch})).collect::<Vec<_>>()}),
        );
    }
    Verdict::Ok { nontrivial: opt - greedy > 10 * tau, opt, greedy, pairs_gated: gated }
}
