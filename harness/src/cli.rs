//! Command line shared by all monitor binaries.
//!   --seed N --shard i/n --tier quick|thorough --out FILE [--replay-index K] [--small] [--param k=v]...
use std::collections::BTreeMap;

#[derive(Clone, Debug)]
pub struct Cli {
    pub seed: u64,
    pub shard: u64,
    pub nshards: u64,
    pub tier: String,
    pub out: Option<String>,
    pub replay_index: Option<u64>,
    pub small: bool,
    pub params: BTreeMap<String, String>,
}

impl Cli {
    pub fn parse() -> Cli {
        let mut c = Cli {
            seed: 1,
            shard: 0,
            nshards: 1,
            tier: "quick".into(),
            out: None,
            replay_index: None,
            small: false,
            params: BTreeMap::new(),
        };
        let args: Vec<String> = std::env::args().skip(1).collect();
        let mut i = 0;
        while i < args.len() {
            let a = args[i].as_str();
            let mut val = || {
                i += 1;
                args.get(i).cloned().unwrap_or_else(|| {
                    eprintln!("missing value for {}", a);
                    std::process::exit(2)
                })
            };
            match a {
                "--seed" => c.seed = val().parse().expect("seed"),
                "--shard" => {
                    let v = val();
                    let (a, b) = v.split_once('/').expect("shard i/n");
                    c.shard = a.parse().unwrap();
                    c.nshards = b.parse().unwrap();
                }
                "--tier" => c.tier = val(),
                "--out" => c.out = Some(val()),
                "--replay-index" => c.replay_index = Some(val().parse().unwrap()),
                "--small" => c.small = true,
                "--param" => {
                    let v = val();
                    let (k, x) = v.split_once('=').expect("k=v");
                    c.params.insert(k.to_string(), x.to_string());
                }
                other => {
                    eprintln!("unknown argument {}", other);
                    std::process::exit(2);
                }
            }
            i += 1;
        }
        c
    }
    pub fn thorough(&self) -> bool {
        self.tier == "thorough"
    }
    /// number of cases for this shard given per-tier totals (split evenly over the shards)
    pub fn cases(&self, quick_total: u64, thorough_total: u64) -> u64 {
        let total = if self.small {
            self.param_u64("cases", 8)
        } else if self.thorough() {
            self.param_u64("cases", thorough_total)
        } else {
            self.param_u64("cases", quick_total)
        };
        let base = total / self.nshards;
        let extra = if self.shard < total % self.nshards { 1 } else { 0 };
        base + extra
    }
    pub fn param_u64(&self, k: &str, default: u64) -> u64 {
        self.params
            .get(k)
            .map(|v| v.parse().expect("numeric param"))
            .unwrap_or(default)
    }
    pub fn param_str(&self, k: &str) -> Option<&str> {
        self.params.get(k).map(|s| s.as_str())
    }
    /// Index range to execute: everything, or just the replayed case.
    pub fn index_range(&self, n: u64) -> Box<dyn Iterator<Item = u64>> {
        match self.replay_index {
            Some(k) => Box::new(std::iter::once(k)),
            None => Box::new(0..n),
        }
    }
}
