//! Exact maximum-weight one-to-one assignment by DP over subsets of tracks.
//! Each query i either takes one track j with weight w[i][j] (if present) or stays unmatched
//! and contributes `own[i]`.

/// returns (optimal objective, one optimal assignment: per query Some(track index) / None)
pub fn best_assignment(w: &[Vec<Option<i64>>], own: &[i64]) -> (i64, Vec<Option<usize>>) {
    let n = w.len();
    if n == 0 {
        return (0, vec![]);
    }
    let m = w[0].len();
    assert!(m <= 20, "too many tracks for subset DP");
    let full = 1usize << m;
    const NEG: i64 = i64::MIN / 4;
    // dp[i][mask] = best value for queries i.. given used mask
    let mut dp = vec![vec![NEG; full]; n + 1];
    let mut choice = vec![vec![usize::MAX; full]; n];
    for mask in 0..full {
        dp[n][mask] = 0;
    }
    for i in (0..n).rev() {
        for mask in 0..full {
            let mut best = own[i] + dp[i + 1][mask];
            let mut ch = usize::MAX;
            for j in 0..m {
                if mask & (1 << j) == 0 {
                    if let Some(x) = w[i][j] {
                        let v = x + dp[i + 1][mask | (1 << j)];
                        if v > best {
                            best = v;
                            ch = j;
                        }
                    }
                }
            }
            dp[i][mask] = best;
            choice[i][mask] = ch;
        }
    }
    let mut mask = 0usize;
    let mut asg = Vec::with_capacity(n);
    for i in 0..n {
        let ch = choice[i][mask];
        if ch == usize::MAX {
            asg.push(None);
        } else {
            asg.push(Some(ch));
            mask |= 1 << ch;
        }
    }
    (dp[0][0], asg)
}

/// objective of a given assignment; None if it uses an absent pair or a track twice
pub fn objective(w: &[Vec<Option<i64>>], own: &[i64], asg: &[Option<usize>]) -> Option<i64> {
    let mut used = std::collections::HashSet::new();
    let mut s = 0;
    for (i, a) in asg.iter().enumerate() {
        match a {
            None => s += own[i],
            Some(j) => {
                if !used.insert(*j) {
                    return None;
                }
                s += w[i][*j]?;
            }
        }
    }
    Some(s)
}

/// greedy: queries in order take their best still-free track if better than own
pub fn greedy(w: &[Vec<Option<i64>>], own: &[i64]) -> i64 {
    let mut used = std::collections::HashSet::new();
    let mut s = 0;
    for i in 0..w.len() {
        let mut best = own[i];
        let mut ch = None;
        for j in 0..w[i].len() {
            if used.contains(&j) {
                continue;
            }
            if let Some(x) = w[i][j] {
                if x > best {
                    best = x;
                    ch = Some(j);
                }
            }
        }
        if let Some(j) = ch {
            used.insert(j);
        }
        s += best;
    }
    s
}

/// Exact optimum for sparse problems of any width: the bipartite graph of present pairs is split into connected
/// components, each solved by the subset DP (queries without any present pair stay unmatched). `None` when a component
/// has more than `max_comp` tracks.
pub fn best_assignment_sparse(w: &[Vec<Option<i64>>], own: &[i64], max_comp: usize) -> Option<(i64, Vec<Option<usize>>)> {
    let n = w.len();
    if n == 0 {
        return Some((0, vec![]));
    }
    let m = w[0].len();
    // union-find over n + m nodes
    let mut parent: Vec<usize> = (0..n + m).collect();
    fn find(p: &mut Vec<usize>, x: usize) -> usize {
        let mut r = x;
        while p[r] != r {
            r = p[r];
        }
        let mut c = x;
        while p[c] != r {
            let nx = p[c];
            p[c] = r;
            c = nx;
        }
        r
    }
    for i in 0..n {
        for j in 0..m {
            if w[i][j].is_some() {
                let (a, b) = (find(&mut parent, i), find(&mut parent, n + j));
                if a != b {
                    parent[a] = b;
                }
            }
        }
    }
    let mut comps: std::collections::BTreeMap<usize, (Vec<usize>, Vec<usize>)> = std::collections::BTreeMap::new();
    for i in 0..n {
        let r = find(&mut parent, i);
        comps.entry(r).or_default().0.push(i);
    }
    for j in 0..m {
        let r = find(&mut parent, n + j);
        if let Some(c) = comps.get_mut(&r) {
            c.1.push(j);
        }
    }
    let mut total = 0i64;
    let mut asg: Vec<Option<usize>> = vec![None; n];
    for (_, (rows, cols)) in comps {
        if cols.is_empty() {
            for i in rows {
                total += own[i];
            }
            continue;
        }
        if cols.len() > max_comp {
            return None;
        }
        let sw: Vec<Vec<Option<i64>>> = rows.iter().map(|i| cols.iter().map(|j| w[*i][*j]).collect()).collect();
        let so: Vec<i64> = rows.iter().map(|i| own[*i]).collect();
        let (v, a) = best_assignment(&sw, &so);
        total += v;
        for (k, i) in rows.iter().enumerate() {
            asg[*i] = a[k].map(|c| cols[c]);
        }
    }
    Some((total, asg))
}
