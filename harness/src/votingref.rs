//! References for the voting engines, written from the property statements (C02 layer A, C17, C12).
use crate::assign;
use std::collections::{BTreeMap, HashMap, HashSet};

/// one element of a result stream: (query, track, positional weight, feature distance)
#[derive(Clone, Copy, Debug, PartialEq)]
pub struct Elt {
    pub q: u64,
    pub t: u64,
    pub w: Option<f32>,
    pub d: Option<f32>,
}

pub const MULT: f32 = 1_000_000.0;

thread_local! {
    /// rounding noise of the weights of the stream `claims()` was last called on (see `noise()`)
    static NOISE: std::cell::Cell<f64> = std::cell::Cell::new(0.0);
}

/// The weight of a claim is the REAL number sum(largest distance seen - d) over exact f32 inputs; this reference
/// evaluates it in f64. An implementation working on f32 data may round each term (largest - d) to f32 (half an ulp
/// of at most twice the largest magnitude in the stream) or round the stream's contribution elsewhere by as much, so two
/// evaluations of one weight may differ by `count x 2^-23 x scale`; twice that bound is the tolerance for weight values and
/// the band inside which two weights are treated as tied ("ties accepted either way").
pub fn noise() -> f64 {
    NOISE.with(|n| n.get())
}

/// qualifying claims: (q, t) -> (count, weight) where weight = sum over counted distances of (max seen - d)
pub fn claims(stream: &[Elt], max_distance: f32, min_votes: usize) -> BTreeMap<(u64, u64), (usize, f64)> {
    // the largest distance present in the stream (no artificial floor)
    let mut max_seen = f32::NEG_INFINITY;
    let mut scale = 0.0f64;
    for e in stream {
        if let Some(d) = e.d {
            if d > max_seen {
                max_seen = d;
            }
            scale = scale.max(d.abs() as f64);
        }
    }
    let mut groups: BTreeMap<(u64, u64), Vec<f32>> = BTreeMap::new();
    for e in stream {
        if let Some(d) = e.d {
            if d <= max_distance {
                groups.entry((e.q, e.t)).or_default().push(d);
            }
        }
    }
    let maxcount = groups.values().map(|v| v.len()).max().unwrap_or(0) as f64;
    NOISE.with(|n| n.set(2.0 * maxcount * scale.max(1e-6) * (0.5f64).powi(23)));
    groups
        .into_iter()
        .filter(|(_, v)| v.len() >= min_votes && !v.is_empty())
        .map(|(k, v)| {
            let w: f64 = v.iter().map(|d| max_seen as f64 - *d as f64).sum();
            (k, (v.len(), w))
        })
        .collect()
}

/// two weights are treated as tied when they are closer than the rounding noise of the stream (see `noise()`)
pub fn near(a: f64, b: f64) -> bool {
    (a - b).abs() <= noise().max(1e-12 * a.abs().max(b.abs()))
}

/// Result of checking a Hungarian (SortVoting) outcome against the exact optimum.
pub struct SortCheck {
    pub objective_lib: Option<i64>,
    pub objective_opt: i64,
    pub greedy: i64,
    pub error: Option<String>,
}

/// `winners`: query -> chosen (track or the query itself). Weights in the engine's integer scale.
pub fn check_sort(stream: &[Elt], threshold: f32, winners: &HashMap<u64, Vec<u64>>) -> SortCheck {
    let mut queries: Vec<u64> = vec![];
    let mut tracks: Vec<u64> = vec![];
    for e in stream {
        if !queries.contains(&e.q) {
            queries.push(e.q);
        }
        if !tracks.contains(&e.t) {
            tracks.push(e.t);
        }
    }
    let thr = (threshold * MULT) as i64;
    let mut w: Vec<Vec<Option<i64>>> = vec![vec![None; tracks.len()]; queries.len()];
    for e in stream {
        let i = queries.iter().position(|x| *x == e.q).unwrap();
        let j = tracks.iter().position(|x| *x == e.t).unwrap();
        // the last element for a pair wins (the engine overwrites)
        w[i][j] = Some((e.w.unwrap_or(0.0) * MULT) as i64);
    }
    let own = vec![thr; queries.len()];
    let (opt, _) = assign::best_assignment(&w, &own);
    let greedy = assign::greedy(&w, &own);
    let mut err = None;
    let mut asg: Vec<Option<usize>> = vec![];
    let mut used = HashSet::new();
    for q in &queries {
        match winners.get(q) {
            None => {
                err = Some(format!("query {} appears in the stream but not in the result", q));
                asg.push(None);
            }
            Some(v) => {
                if v.len() != 1 {
                    err = Some(format!("query {} has {} winners", q, v.len()));
                    asg.push(None);
                    continue;
                }
                let t = v[0];
                if t == *q {
                    asg.push(None);
                } else if let Some(j) = tracks.iter().position(|x| *x == t) {
                    if !used.insert(t) {
                        err = Some(format!("track {} awarded twice", t));
                    }
                    asg.push(Some(j));
                } else {
                    err = Some(format!("query {} -> unknown id {}", q, t));
                    asg.push(None);
                }
            }
        }
    }
    for (q, _) in winners.iter() {
        if !queries.contains(q) {
            err = Some(format!("result contains query {} that is not in the stream", q));
        }
    }
    let obj = if err.is_none() {
        match assign::objective(&w, &own, &asg) {
            Some(o) => Some(o),
            None => {
                err = Some("a query was given a track it has no result element with (absent pair)".into());
                None
            }
        }
    } else {
        None
    };
    if err.is_none() && obj.unwrap() < opt {
        err = Some(format!("assignment objective {} below the optimum {}", obj.unwrap(), opt));
    }
    SortCheck { objective_lib: obj, objective_opt: opt, greedy, error: err }
}

pub fn check_visual(rep: &mut crate::Report, idx: u64, stream: &[Elt], thr: f32, maxd: f32, minv: usize, res: &BTreeMap<u64, Vec<(u64, bool)>>, ctx: &serde_json::Value, prefix: &str) -> bool {
    let cl = claims(stream, maxd, minv);
    let mut tie = false;
    let mut per_t: BTreeMap<u64, Vec<(u64, f64)>> = BTreeMap::new();
    let mut per_q: BTreeMap<u64, Vec<(u64, f64)>> = BTreeMap::new();
    for ((q, t), (_, w)) in &cl {
        per_t.entry(*t).or_default().push((*q, *w));
        per_q.entry(*q).or_default().push((*t, *w));
    }
    for l in per_t.values_mut().chain(per_q.values_mut()) {
        l.sort_by(|a, b| b.1.partial_cmp(&a.1).unwrap());
        if l.len() > 1 && near(l[0].1, l[1].1) {
            tie = true;
        }
    }
    let mut used = HashSet::new();
    let mut visual_taken = HashSet::new();
    for (q, l) in res {
        if l.len() != 1 {
            rep.violation(&format!("{}/visual/not-one-winner", prefix), idx, serde_json::json!({"ctx": ctx, "query": q, "winners": l}));
            continue;
        }
        let (t, vis) = l[0];
        if t != *q && !used.insert(t) {
            rep.violation(&format!("{}/visual/track-awarded-twice", prefix), idx, serde_json::json!({"ctx": ctx, "track": t, "result": res}));
        }
        if vis && t != *q {
            visual_taken.insert(t);
            // must be a qualifying claim and q must be the greatest claimant of t
            match per_t.get(&t) {
                Some(cls) if cls.iter().any(|c| c.0 == *q) => {
                    if cls[0].0 != *q && !near(cls[0].1, cls.iter().find(|c| c.0 == *q).unwrap().1) {
                        rep.violation(&format!("{}/visual/visual-to-lesser-claimant", prefix), idx, serde_json::json!({"ctx": ctx, "query": q, "track": t, "claimants": cls}));
                    }
                }
                _ => rep.violation(&format!("{}/visual/visual-without-qualifying-claim", prefix), idx, serde_json::json!({"ctx": ctx, "query": q, "track": t})),
            }
        }
        if !vis && t != *q && per_q.contains_key(q) {
            // a query with an appearance claim must not end up positionally on a track it claimed and lost
            if cl.contains_key(&(*q, t)) {
                rep.violation(&format!("{}/visual/loser-attached-to-contested-track", prefix), idx, serde_json::json!({"ctx": ctx, "query": q, "track": t}));
            }
        }
    }
    if tie {
        return true;
    }
    // a query that is the clear greatest claimant of the track that is its own clear best claim must win it visually
    for (q, l) in &per_q {
        let (t, _) = l[0];
        if per_t[&t][0].0 == *q {
            match res.get(q) {
                Some(v) if v.len() == 1 && v[0] == (t, true) => {}
                other => rep.violation(&format!("{}/visual/best-claim-not-honoured", prefix), idx, serde_json::json!({"ctx": ctx, "query": q, "track": t, "got": other})),
            }
        }
    }
    // queries without any appearance claim: optimal positional assignment among tracks not taken by appearance
    let pos_stream: Vec<Elt> = stream.iter().filter(|e| !per_q.contains_key(&e.q) && !visual_taken.contains(&e.t) && e.w.is_some()).cloned().collect();
    // tracks excluded by the library may also include tracks "won" by a query's top claim that was lost; only judge
    // when the statement's exclusion set (tracks taken by appearance) equals the set of all top-claim tracks
    let top_claim_tracks: HashSet<u64> = per_q.values().map(|l| l[0].0).collect();
    if top_claim_tracks == visual_taken {
        let winners: HashMap<u64, Vec<u64>> = res.iter().filter(|(q, _)| !per_q.contains_key(q)).map(|(q, l)| (*q, vec![l[0].0])).collect();
        for (q, l) in res {
            if !per_q.contains_key(q) && l[0].1 && l[0].0 != *q {
                rep.violation(&format!("{}/visual/visual-type-without-claim", prefix), idx, serde_json::json!({"ctx": ctx, "query": q}));
            }
        }
        let c = check_sort(&pos_stream, thr, &winners);
        if let Some(e) = c.error {
            rep.violation(&format!("{}/visual/positional-stage", prefix), idx, serde_json::json!({"ctx": ctx, "error": e, "positional_stream": pos_stream.iter().map(|e| serde_json::json!([e.q, e.t, e.w, e.d])).collect::<Vec<_>>(), "result": res}));
        }
        rep.count("visual_positional_stage_checked");
    }
    false
}

