//! References for the voting engines, written from the property statements (C02 layer A, C17, C12).
use crate::assign;
use std::collections::{BTreeMap, HashMap, HashSet};

/// one element of a result stream: (query, track, positional weight, feature distance)
#[derive(Clone, Copy, Debug, PartialEq)]
pub struct Elt {
    pub q: u64,
    pub t: u64,
    pub w: Option<f32>,
    pub d: Option<f32>,
}

pub const MULT: f32 = 1_000_000.0;

/// qualifying claims: (q, t) -> (count, weight) where weight = sum over counted distances of (max seen - d)
pub fn claims(stream: &[Elt], max_distance: f32, min_votes: usize) -> BTreeMap<(u64, u64), (usize, f64)> {
    let mut max_seen = -1.0f32;
    for e in stream {
        if let Some(d) = e.d {
            if d > max_seen {
                max_seen = d;
            }
        }
    }
    let mut groups: BTreeMap<(u64, u64), Vec<f32>> = BTreeMap::new();
    for e in stream {
        if let Some(d) = e.d {
            if d <= max_distance {
                groups.entry((e.q, e.t)).or_default().push(d);
            }
        }
    }
    groups
        .into_iter()
        .filter(|(_, v)| v.len() >= min_votes && !v.is_empty())
        .map(|(k, v)| {
            let mut v = v;
            v.sort_by(|a, b| a.partial_cmp(b).unwrap());
            let w: f64 = v.iter().map(|d| (max_seen - d) as f64).sum();
            (k, (v.len(), w))
        })
        .collect()
}

/// two weights are treated as tied only when they differ by no more than f64 summation rounding: every term
/// (max seen - d) is an exact f32 value, so distinct claims differ by at least ~1e-8 relative
pub fn near(a: f64, b: f64) -> bool {
    (a - b).abs() <= 1e-12 * (a.abs().max(b.abs())).max(1e-9)
}

/// Result of checking a Hungarian (SortVoting) outcome against the exact optimum.
pub struct SortCheck {
    pub objective_lib: Option<i64>,
    pub objective_opt: i64,
    pub greedy: i64,
    pub error: Option<String>,
}

/// `winners`: query -> chosen (track or the query itself). Weights in the engine's integer scale.
pub fn check_sort(stream: &[Elt], threshold: f32, winners: &HashMap<u64, Vec<u64>>) -> SortCheck {
    let mut queries: Vec<u64> = vec![];
    let mut tracks: Vec<u64> = vec![];
    for e in stream {
        if !queries.contains(&e.q) {
            queries.push(e.q);
        }
        if !tracks.contains(&e.t) {
            tracks.push(e.t);
        }
    }
    let thr = (threshold * MULT) as i64;
    let mut w: Vec<Vec<Option<i64>>> = vec![vec![None; tracks.len()]; queries.len()];
    for e in stream {
        let i = queries.iter().position(|x| *x == e.q).unwrap();
        let j = tracks.iter().position(|x| *x == e.t).unwrap();
        // the last element for a pair wins (the engine overwrites)
        w[i][j] = Some((e.w.unwrap_or(0.0) * MULT) as i64);
    }
    let own = vec![thr; queries.len()];
    let (opt, _) = assign::best_assignment(&w, &own);
    let greedy = assign::greedy(&w, &own);
    let mut err = None;
    let mut asg: Vec<Option<usize>> = vec![];
    let mut used = HashSet::new();
    for q in &queries {
        match winners.get(q) {
            None => {
                err = Some(format!("query {} appears in the stream but not in the result", q));
                asg.push(None);
            }
            Some(v) => {
                if v.len() != 1 {
                    err = Some(format!("query {} has {} winners", q, v.len()));
                    asg.push(None);
                    continue;
                }
                let t = v[0];
                if t == *q {
                    asg.push(None);
                } else if let Some(j) = tracks.iter().position(|x| *x == t) {
                    if !used.insert(t) {
                        err = Some(format!("track {} awarded twice", t));
                    }
                    asg.push(Some(j));
                } else {
                    err = Some(format!("query {} -> unknown id {}", q, t));
                    asg.push(None);
                }
            }
        }
    }
    for (q, _) in winners.iter() {
        if !queries.contains(q) {
            err = Some(format!("result contains query {} that is not in the stream", q));
        }
    }
    let obj = if err.is_none() {
        match assign::objective(&w, &own, &asg) {
            Some(o) => Some(o),
            None => {
                err = Some("a query was given a track it has no result element with (absent pair)".into());
                None
            }
        }
    } else {
        None
    };
    if err.is_none() && obj.unwrap() < opt {
        err = Some(format!("assignment objective {} below the optimum {}", obj.unwrap(), opt));
    }
    SortCheck { objective_lib: obj, objective_opt: opt, greedy, error: err }
}
