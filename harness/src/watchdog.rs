//! Quiescence-based deadlock detector (E6).
//!
//! The monitored process has no timers, sockets or signals of its own: every blocking wait is a futex wait
//! on another thread of the same process. Hence "the operation has not finished AND every thread except this
//! sampler is sleeping AND no thread consumed CPU time AND no hook event happened between several samples one
//! second apart" is a deadlock, reported as a violation with the per-thread last hook sites. A stall in which
//! threads still burn CPU (loaded machine) is inconclusive, never a violation.
use crate::cli::Cli;
use serde_json::json;
use std::sync::atomic::{AtomicBool, AtomicU64, Ordering};
use std::sync::{Arc, Mutex};
use std::time::{Duration, Instant};

pub struct Watchdog {
    pub beats: AtomicU64,
    pub context: Mutex<String>,
    pub armed: AtomicBool,
    pub samples: AtomicU64,
}

fn thread_states(skip_tid: i32) -> Vec<(i32, char, u64)> {
    let mut v = vec![];
    if let Ok(rd) = std::fs::read_dir("/proc/self/task") {
        for e in rd.flatten() {
            let tid: i32 = match e.file_name().to_string_lossy().parse() {
                Ok(t) => t,
                Err(_) => continue,
            };
            if tid == skip_tid {
                continue;
            }
            if let Ok(s) = std::fs::read_to_string(e.path().join("stat")) {
                // pid (comm) state ... utime(14) stime(15)
                if let Some(p) = s.rfind(')') {
                    let f: Vec<&str> = s[p + 2..].split_whitespace().collect();
                    if f.len() > 13 {
                        let st = f[0].chars().next().unwrap_or('?');
                        let ut: u64 = f[11].parse().unwrap_or(0);
                        let stt: u64 = f[12].parse().unwrap_or(0);
                        v.push((tid, st, ut + stt));
                    }
                }
            }
        }
    }
    v.sort();
    v
}

fn gettid() -> i32 {
    // /proc/thread-self -> /proc/<pid>/task/<tid>
    std::fs::read_link("/proc/thread-self").ok().and_then(|p| p.file_name().map(|f| f.to_string_lossy().parse().unwrap_or(0))).unwrap_or(0)
}

impl Watchdog {
    /// starts the sampler thread. `hook_ticket` is the schedule controller's event counter (any hook hit = progress).
    pub fn start(cli: &Cli, prop: &'static str, hook_ticket: Option<Arc<crate::sched::Controller>>) -> Arc<Watchdog> {
        let w = Arc::new(Watchdog { beats: AtomicU64::new(0), context: Mutex::new(String::new()), armed: AtomicBool::new(false), samples: AtomicU64::new(0) });
        let w2 = w.clone();
        let cli = cli.clone();
        std::thread::Builder::new()
            .name("verif-watchdog".into())
            .spawn(move || {
                let me = gettid();
                let mut last_beat = u64::MAX;
                let mut last_ticket = u64::MAX;
                let mut last_states: Vec<(i32, char, u64)> = vec![];
                let mut quiet = 0u32;
                let mut stalled_since: Option<Instant> = None;
                loop {
                    std::thread::sleep(Duration::from_millis(1000));
                    if !w2.armed.load(Ordering::SeqCst) {
                        quiet = 0;
                        stalled_since = None;
                        last_beat = u64::MAX;
                        continue;
                    }
                    w2.samples.fetch_add(1, Ordering::SeqCst);
                    let beat = w2.beats.load(Ordering::SeqCst);
                    let ticket = hook_ticket.as_ref().map(|c| c.ticket.load(Ordering::SeqCst)).unwrap_or(0);
                    let states = thread_states(me);
                    let all_sleeping = states.iter().all(|(_, s, _)| *s == 'S');
                    let no_progress = beat == last_beat && ticket == last_ticket && states == last_states;
                    if beat != last_beat {
                        stalled_since = None;
                    } else if stalled_since.is_none() {
                        stalled_since = Some(Instant::now());
                    }
                    if no_progress && all_sleeping {
                        quiet += 1;
                    } else {
                        quiet = 0;
                    }
                    last_beat = beat;
                    last_ticket = ticket;
                    last_states = states.clone();
                    if quiet >= 4 {
                        // deadlock: write a one-violation shard report and leave
                        let ctx = w2.context.lock().map(|c| c.clone()).unwrap_or_default();
                        let sites = hook_ticket.as_ref().map(|c| c.last_sites()).unwrap_or_default();
                        let rep = json!({
                            "property_id": prop, "seed": cli.seed, "shard": cli.shard, "nshards": cli.nshards, "tier": cli.tier,
                            "evaluations": beat, "distinct_nontrivial": 0, "counters": {"deadlocks_observed": 1}, "maxima": {}, "distinct_sets": {}, "samples": [],
                            "violations": [{"signature": format!("{}/deadlock", prop), "seed": cli.seed, "shard": cli.shard, "nshards": cli.nshards, "tier": cli.tier,
                                "small": cli.small, "params": cli.params, "index": -1,
                                "detail": {"context": ctx, "threads[tid,state,cpu_ticks]": states, "last_hook_site_per_thread": sites,
                                           "oracle": "operation unfinished, all threads sleeping, no CPU time and no hook event for 4 consecutive 1 s samples"}}],
                            "violations_total": 1, "violation_signatures": {format!("{}/deadlock", prop): 1}, "inconclusive": [], "notes": {}, "wall_s": 0.0
                        });
                        if let Some(p) = &cli.out {
                            let _ = std::fs::write(p, rep.to_string());
                        } else {
                            println!("{}", rep);
                        }
                        std::process::exit(1);
                    }
                    if let Some(t) = stalled_since {
                        if t.elapsed() > Duration::from_secs(240) {
                            // no completed operation for 4 minutes although threads are not quiescent: inconclusive
                            let rep = json!({"property_id": prop, "evaluations": beat, "distinct_nontrivial": 0, "counters": {}, "maxima": {}, "distinct_sets": {}, "samples": [],
                                "violations": [], "violations_total": 0, "violation_signatures": {}, "notes": {},
                                "inconclusive": ["watchdog: an operation did not finish within 240 s while threads were still consuming CPU (loaded machine?)"], "wall_s": 0.0});
                            if let Some(p) = &cli.out {
                                let _ = std::fs::write(p, rep.to_string());
                            }
                            std::process::exit(2);
                        }
                    }
                }
            })
            .expect("spawn watchdog");
        w
    }
    pub fn arm(&self, ctx: String) {
        *self.context.lock().unwrap() = ctx;
        self.beats.fetch_add(1, Ordering::SeqCst);
        self.armed.store(true, Ordering::SeqCst);
    }
    pub fn beat(&self) {
        self.beats.fetch_add(1, Ordering::SeqCst);
    }
    pub fn disarm(&self) {
        self.armed.store(false, Ordering::SeqCst);
    }
}
