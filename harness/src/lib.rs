//! Support library shared by the per-property monitor binaries.
pub mod assign;
pub mod cli;
pub mod geom;
pub mod linalg;
pub mod posref;
pub mod report;
pub mod rng;
pub mod sched;
pub mod storemodel;
pub mod trk;
pub mod votingref;
pub mod watchdog;

pub use cli::Cli;
pub use report::Report;
pub use rng::Rng;
pub use serde_json::{json, Value};
