//! C14 — non-maximum suppression keeps a maximal independent set in rank order.
use similari::utils::bbox::Universal2DBox;
use similari::utils::nms::nms;
use vh::geom;
use vh::rng::Hasher;
use vh::{json, Cli, Report, Rng};

fn poly(b: &Universal2DBox) -> Vec<geom::P> {
    geom::rect(b.xc as f64, b.yc as f64, b.angle.unwrap_or(0.0) as f64, b.height as f64 * b.aspect as f64, b.height as f64)
}

/// integer-grid axis-aligned boxes whose mutual coverage fractions are exact binary fractions, with the threshold set to
/// exactly such a fraction: "more than the threshold" is then decidable at equality
fn gen_exact_list(rng: &mut Rng) -> (Vec<(Universal2DBox, Option<f32>)>, f32, Option<f32>, &'static str) {
    let n = 2 + rng.usize(5);
    let mut v = vec![];
    for i in 0..n {
        // 8x8 boxes shifted by multiples of 2: coverage fractions k/4 * m/4 ...; heights differ slightly in rank only via score
        let (l, t) = (2.0 * rng.range(0, 6) as f32, 2.0 * rng.range(0, 6) as f32);
        let b = similari::utils::bbox::BoundingBox::new(l, t, 8.0, 8.0).as_xyaah();
        v.push((b, Some(1.0 - i as f32 / 16.0)));
    }
    let thr = *rng.pick(&[0.25f32, 0.5, 0.75, 0.5625, 0.375]);
    (v, thr, None, "exact-grid")
}

fn gen_list(rng: &mut Rng) -> (Vec<(Universal2DBox, Option<f32>)>, f32, Option<f32>, &'static str) {
    if rng.chance(0.08) {
        return gen_exact_list(rng);
    }
    let n = match rng.usize(10) {
        0 => 0,
        1 => 1,
        _ => rng.usize(41),
    };
    let style = *rng.pick(&["clustered", "sparse", "nested", "duplicated", "mixed"]);
    let rotated = rng.chance(0.5);
    let with_scores = rng.usize(4); // 0 none, 1 all in 0..1, 2 mixed, 3 all signed (logits / log-probabilities)
    let nclusters = 1 + rng.usize(4);
    let co_oriented = rng.chance(0.35);
    let shared_angle = rng.uniform(0.2, 2.9) as f32;
    // a fifth of the lists live in normalised coordinates (image = unit square, box heights 1e-3..1e-1): coverage is a
    // ratio, so the decisions must not depend on the absolute scale
    let scale = if rng.chance(0.2) { rng.log_uniform(2e-4, 2e-3) } else { 1.0 };
    // a quarter of the lists carry detection confidences != 1 (new_with_confidence); the rank of a score-less box is
    // its height whatever the confidence
    let with_conf = rng.chance(0.25);
    let centres: Vec<(f64, f64, f64)> = (0..nclusters).map(|_| (rng.uniform(0.0, 500.0) * scale, rng.uniform(0.0, 500.0) * scale, rng.log_uniform(5.0, 80.0) * scale)).collect();
    let mut v: Vec<(Universal2DBox, Option<f32>)> = vec![];
    for i in 0..n {
        let c = centres[rng.usize(nclusters)];
        let (xc, yc, h, asp) = match style {
            "sparse" => (rng.uniform(0.0, 3000.0) * scale, rng.uniform(0.0, 3000.0) * scale, rng.log_uniform(5.0, 80.0) * scale, rng.uniform(0.3, 3.0)),
            "nested" => (c.0 + rng.uniform(-0.1, 0.1) * c.2, c.1 + rng.uniform(-0.1, 0.1) * c.2, c.2 * rng.uniform(0.2, 1.5), rng.uniform(0.5, 2.0)),
            _ => (c.0 + rng.uniform(-1.0, 1.0) * c.2, c.1 + rng.uniform(-1.0, 1.0) * c.2, c.2 * rng.uniform(0.5, 1.5), rng.uniform(0.3, 3.0)),
        };
        // co-oriented lists (all boxes share one non-zero angle, e.g. a row of parked cars) are a case of their own:
        // equal angles are where an axis-aligned shortcut would be tempting
        let angle = if rotated && co_oriented { Some(shared_angle) } else if rotated && rng.chance(0.7) { Some(rng.uniform(0.0, 3.2) as f32) } else { None };
        let mut b = if with_conf {
            Universal2DBox::new_with_confidence(xc as f32, yc as f32, angle, asp as f32, h as f32, rng.uniform(0.05, 1.0) as f32)
        } else {
            Universal2DBox::new(xc as f32, yc as f32, angle, asp as f32, h as f32)
        };
        if (style.starts_with("duplicated") || style.starts_with("mixed")) && i > 0 && rng.chance(0.3) {
            let j = rng.usize(v.len());
            b = v[j].0.clone();
        }
        // invalid boxes mixed in
        if rng.chance(0.04) {
            if rng.chance(0.5) {
                b.height = if rng.chance(0.5) { 0.0 } else { -b.height };
            } else {
                b.aspect = if rng.chance(0.5) { 0.0 } else { -b.aspect };
            }
        }
        // a tenth of the boxes reach their parameters through public field writes AFTER gen_vertices() cached an earlier state
        if rng.chance(0.1) && b.height > 0.0 && b.aspect > 0.0 {
            let mut t = Universal2DBox::new(b.xc + 2.0 * b.height, b.yc - b.height, Some(b.angle.unwrap_or(0.0) + 0.9), b.aspect * 1.5, b.height * 0.7);
            t.gen_vertices();
            t.xc = b.xc;
            t.yc = b.yc;
            t.angle = b.angle;
            t.aspect = b.aspect;
            t.height = b.height;
            t.confidence = b.confidence;
            b = t;
        }
        let score = match with_scores {
            0 => None,
            1 => Some(rng.f32()),
            3 => Some(rng.uniform(-12.0, 6.0) as f32),
            _ => {
                if rng.chance(0.5) {
                    Some(rng.uniform(0.0, 100.0) as f32)
                } else {
                    None
                }
            }
        };
        // repeat scores now and then (rank ties)
        let score = if rng.chance(0.1) && !v.is_empty() { v[rng.usize(v.len())].1.or(score) } else { score };
        v.push((b, score));
    }
    let thr = rng.uniform(0.02, 0.98) as f32;
    let st = match rng.usize(4) {
        0 => None,
        1 => Some(-1.0),
        2 => Some(if with_scores == 1 { rng.f32() } else if with_scores == 3 { rng.uniform(-12.0, 6.0) as f32 } else { rng.uniform(0.0, 100.0) as f32 }),
        _ => Some(1000.0),
    };
    // a tenth of the pixel-scale lists lie far from the origin (geo-referenced coordinates, huge mosaics): the boxes are
    // translated by a large offset; the reference works on the f32 fields the library receives
    if scale == 1.0 && rng.chance(0.1) {
        let (ox, oy) = (rng.range(100, 4000) as f32 * 1024.0, rng.range(-4000, 4000) as f32 * 1024.0);
        for (b, _) in v.iter_mut() {
            let mut t = Universal2DBox::new_with_confidence(b.xc + ox, b.yc + oy, b.angle, b.aspect, b.height, b.confidence);
            std::mem::swap(b, &mut t);
        }
        return (v, thr, st, "far-from-origin");
    }
    if scale != 1.0 {
        return (v, thr, st, match style { "clustered" => "clustered/normalised", "sparse" => "sparse/normalised", "nested" => "nested/normalised", "duplicated" => "duplicated/normalised", _ => "mixed/normalised" });
    }
    (v, thr, st, style)
}

fn main() {
    let cli = Cli::parse();
    let mut rep = Report::new("C14", &cli);
    rep.note("rule", json!("case = list of 0..40 boxes (clustered / sparse / nested / duplicated / mixed, rotated or not - 35% of the rotated lists co-oriented (one shared non-zero angle) -, scores none / all / mixed, ~4% invalid boxes), nms threshold in (0,1), score threshold None / below / inside / above. Outputs are mapped to input indices by pointer identity. Checked: subset & filter, non-increasing rank, top-ranked eligible kept, no kept box covered beyond threshold (+1e-4 band) by an earlier kept box, every dropped eligible box covered beyond threshold (-1e-4 band) by some kept box of rank >= its own, nms(nms(x)) == nms(x). A fifth of the lists are in normalised coordinates (heights 1e-3..1e-1), a quarter carry confidences != 1, a tenth lie 1e5..4e6 away from the origin, a quarter of the scored lists use signed scores. Coverage reference = f64 convex intersection / area; 8% of the lists are integer-grid lists whose coverage fractions and threshold are exact binary fractions, judged without band (a box covered by exactly the threshold fraction is NOT suppressed); 10% of the boxes reach their parameters by field writes after gen_vertices(). Non-trivial: at least one box dropped by suppression and at least two kept; distinct by hash of the list."));
    rep.note("assumptions", json!(["finite scores and coordinates", "rank ties: either order accepted (only non-increasing ranks are required)"]));
    let n = cli.cases(200_000, 2_000_000);
    for idx in cli.index_range(n) {
        let mut rng = Rng::for_case(cli.seed, cli.shard, idx);
        let (dets, thr, st, style) = gen_list(&mut rng);
        rep.eval();
        if style.ends_with("/normalised") {
            rep.count("lists_in_normalised_coordinates");
        }
        if dets.iter().any(|(b, s)| s.is_none() && b.confidence != 1.0) {
            rep.count("lists_with_scoreless_boxes_of_confidence_below_1");
        }
        let out = nms(&dets, thr, st);
        let base = dets.as_ptr() as usize;
        let sz = std::mem::size_of::<(Universal2DBox, Option<f32>)>();
        let mut out_idx = vec![];
        let mut bad_ptr = false;
        for r in &out {
            let p = *r as *const Universal2DBox as usize;
            if p < base || p >= base + sz * dets.len().max(1) || dets.is_empty() {
                bad_ptr = true;
                break;
            }
            let k = (p - base) / sz;
            if !std::ptr::eq(&dets[k].0, *r) {
                bad_ptr = true;
                break;
            }
            out_idx.push(k);
        }
        let case_js = || {
            json!({"style": style, "nms_threshold": thr, "score_threshold": st,
            "boxes[xc,yc,angle,aspect,height,confidence,score]": dets.iter().map(|(b, s)| json!([b.xc, b.yc, b.angle, b.aspect, b.height, b.confidence, s])).collect::<Vec<_>>(), "kept": out_idx})
        };
        if bad_ptr {
            rep.violation("C14/output-not-from-input", idx, case_js());
            continue;
        }
        let rank = |k: usize| dets[k].1.unwrap_or(dets[k].0.height);
        let eligible = |k: usize| {
            let (b, s) = &dets[k];
            b.height > 0.0 && b.aspect > 0.0 && match (s, st) {
                (_, None) => true,
                (None, Some(_)) => true,
                (Some(s), Some(t)) => *s > t,
            }
        };
        let elig: Vec<usize> = (0..dets.len()).filter(|k| eligible(*k)).collect();
        let mut seen = std::collections::HashSet::new();
        for k in &out_idx {
            if !seen.insert(*k) {
                rep.violation("C14/duplicate-output", idx, case_js());
            }
            if !eligible(*k) {
                rep.violation("C14/ineligible-kept", idx, case_js());
            }
        }
        for w in out_idx.windows(2) {
            if rank(w[0]) < rank(w[1]) {
                rep.violation("C14/rank-order", idx, case_js());
                break;
            }
        }
        if let Some(maxr) = elig.iter().map(|k| rank(*k)).fold(None, |m: Option<f32>, r| Some(m.map_or(r, |x| x.max(r)))) {
            // some top-ranked eligible box must be first
            match out_idx.first() {
                Some(f) if rank(*f) == maxr => {}
                _ => rep.violation("C14/top-ranked-missing", idx, case_js()),
            }
        } else if !out_idx.is_empty() {
            rep.violation("C14/ineligible-kept", idx, case_js());
        }
        let polys: Vec<Option<Vec<geom::P>>> = (0..dets.len()).map(|k| if dets[k].0.height > 0.0 && dets[k].0.aspect > 0.0 { Some(poly(&dets[k].0)) } else { None }).collect();
        let cover = |hi: usize, lo: usize| -> f64 {
            let (a, b) = (polys[hi].as_ref().unwrap(), polys[lo].as_ref().unwrap());
            geom::intersection_area(a, b) / geom::shoelace(b)
        };
        // coverage fractions of the planted integer-grid lists are exact in f32 and f64: no band there
        let band = if style == "exact-grid" { 0.0 } else { 1e-4 };
        let mut in_band = false;
        // kept vs earlier kept
        'outer: for j in 0..out_idx.len() {
            for i in 0..j {
                let c = cover(out_idx[i], out_idx[j]);
                if c > thr as f64 + band {
                    rep.violation("C14/kept-but-covered", idx, json!({"case": case_js(), "higher": out_idx[i], "lower": out_idx[j], "cover": c}));
                    break 'outer;
                }
                if band > 0.0 && (c - thr as f64).abs() <= band {
                    in_band = true;
                }
                if band == 0.0 && c == thr as f64 {
                    rep.count("exact_equality_decisions");
                }
            }
        }
        // dropped must be covered by a kept box of rank >= own
        let kept: std::collections::HashSet<usize> = out_idx.iter().cloned().collect();
        let mut dropped = 0;
        for d in &elig {
            if kept.contains(d) {
                continue;
            }
            dropped += 1;
            let mut best: f64 = 0.0;
            for k in &out_idx {
                if rank(*k) >= rank(*d) {
                    best = best.max(cover(*k, *d));
                }
            }
            if band > 0.0 && (best - thr as f64).abs() <= band {
                in_band = true;
            }
            if band == 0.0 && best == thr as f64 {
                rep.count("exact_equality_decisions");
            }
            if !(best > thr as f64 - band) || (band == 0.0 && best <= thr as f64) {
                rep.violation("C14/dropped-but-not-covered", idx, json!({"case": case_js(), "dropped": d, "best_cover_by_kept": best}));
                break;
            }
        }
        if in_band {
            rep.count("cases_with_a_decision_inside_the_band");
        }
        rep.add("boxes_dropped_by_suppression", dropped as u64);
        rep.add("boxes_kept", out_idx.len() as u64);
        rep.add("boxes_filtered", (dets.len() - elig.len()) as u64);
        // idempotence
        let second: Vec<(Universal2DBox, Option<f32>)> = out_idx.iter().map(|k| dets[*k].clone()).collect();
        let out2 = nms(&second, thr, st);
        let same = out2.len() == second.len() && out2.iter().zip(second.iter()).all(|(a, b)| std::ptr::eq(*a, &b.0));
        if !same {
            let kept2: Vec<usize> = out2.iter().map(|r| (*r as *const Universal2DBox as usize - second.as_ptr() as usize) / sz).collect();
            rep.violation("C14/not-idempotent", idx, json!({"case": case_js(), "second_application_keeps_positions": kept2}));
        }
        if dropped > 0 && out_idx.len() >= 2 {
            let mut h = Hasher::new();
            h.f32(thr);
            for (b, s) in &dets {
                h.f32(b.xc).f32(b.yc).f32(b.angle.unwrap_or(-9.0)).f32(b.aspect).f32(b.height).f32(s.unwrap_or(-1.0));
            }
            rep.nontrivial(h.get());
        }
        if rep.want_sample() && dropped > 0 && dets.len() < 8 && dets.len() > 3 {
            rep.sample(case_js());
        }
    }
    rep.finish();
}
