//! C19 — box representations agree; box equality is a symmetric tolerance relation.
use similari::utils::bbox::{normalize_angle, BoundingBox, Universal2DBox};
use similari::EPS;
use vh::geom;
use vh::rng::Hasher;
use vh::{json, Cli, Report, Rng};

fn ulp32(x: f32) -> f64 {
    let x = x.abs().max(f32::MIN_POSITIVE);
    let b = x.to_bits();
    (f32::from_bits(b + 1) as f64) - (x as f64)
}

fn bb_field(b: &BoundingBox, i: usize) -> f32 {
    [b.left, b.top, b.width, b.height, b.confidence][i]
}
fn bb_with(b: &BoundingBox, i: usize, v: f32) -> BoundingBox {
    let mut n = *b;
    match i {
        0 => n.left = v,
        1 => n.top = v,
        2 => n.width = v,
        3 => n.height = v,
        _ => n.confidence = v,
    }
    n
}
const BB_NAMES: [&str; 5] = ["left", "top", "width", "height", "confidence"];
const U_NAMES: [&str; 5] = ["xc", "yc", "angle", "aspect", "height"];

fn u_field(b: &Universal2DBox, i: usize) -> f32 {
    [b.xc, b.yc, b.angle.unwrap_or(0.0), b.aspect, b.height][i]
}
fn u_with(b: &Universal2DBox, i: usize, v: f32) -> Universal2DBox {
    let mut n = b.clone();
    match i {
        0 => n.xc = v,
        1 => n.yc = v,
        2 => n.angle = Some(v),
        3 => n.aspect = v,
        _ => n.height = v,
    }
    n
}

fn main() {
    let cli = Cli::parse();
    let mut rep = Report::new("C19", &cli);
    rep.note("rule", json!("case = random base box (magnitudes 1e-2..1e4, angle None/Some incl. k*pi/2 and |angle|>2pi). Per base: ltwh->universal->ltwh round trip; polygon vertices (also after field writes / rotate_mut / by-value rotate following gen_vertices(); for the API-only changes also the carried cached polygon and the consuming clip method's self-clip area) vs an f64 rotation of the axis-aligned rectangle (as a vertex set, plus shoelace area in the given order, centroid, max vertex radius vs area()/centre/get_radius()); equality: reflexive, and for EVERY field of BoundingBox (5) and Universal2DBox (5) x delta in {+-EPS/4, +-4EPS, +-1, +-100} x both argument orders: symmetric, equal iff the actual f32 difference < EPS; plus pairs differing in several coordinates at once (all below EPS => equal, any clearly above => unequal) (pairs whose actual difference is within 2% of EPS are skipped and counted); normalize_angle: result in [0, 2pi_f32] and congruent to the input modulo 2pi within rounding. Non-trivial: every base box (distinct by field bits)."));
    rep.note("assumptions", json!(["equality is judged on the difference actually representable in f32 after applying the delta (at |x|=1e4 a delta of EPS/4 is absorbed by rounding and the pair is then expected to be equal)"]));
    let n = cli.cases(80_000, 800_000);
    let deltas: [f32; 8] = [EPS / 4.0, -EPS / 4.0, 4.0 * EPS, -4.0 * EPS, 1.0, -1.0, 100.0, -100.0];
    for idx in cli.index_range(n) {
        let mut rng = Rng::for_case(cli.seed, cli.shard, idx);
        rep.eval();
        let mag = rng.log_uniform(1e-2, 1e4);
        let left = (rng.uniform(-1.0, 1.0) * mag) as f32;
        let top = (rng.uniform(-1.0, 1.0) * mag) as f32;
        let width = rng.log_uniform(1e-2, 1e4) as f32;
        let height = rng.log_uniform(1e-2, 1e4) as f32;
        let conf = if rng.chance(0.5) { 1.0 } else { rng.f32() };
        let bb = BoundingBox::new_with_confidence(left, top, width, height, conf);
        let mut h = Hasher::new();
        h.f32(left).f32(top).f32(width).f32(height).f32(conf);

        // --- round trip ltwh -> universal -> ltwh
        let u = bb.as_xyaah();
        match BoundingBox::try_from(&u) {
            Ok(back) => {
                let scale = (left.abs() + width).max(top.abs() + height);
                let tol = 4.0 * ulp32(scale);
                let errs = [
                    (back.left as f64 - left as f64).abs(),
                    (back.top as f64 - top as f64).abs(),
                    (back.width as f64 - width as f64).abs(),
                    (back.height as f64 - height as f64).abs(),
                ];
                let worst = errs.iter().cloned().fold(0.0, f64::max);
                rep.max("roundtrip_err_in_ulp_of_scale", worst / ulp32(scale));
                if worst > tol || back.confidence != conf {
                    rep.violation("C19/roundtrip", idx, json!({"box": [left, top, width, height, conf], "back": [back.left, back.top, back.width, back.height, back.confidence]}));
                }
            }
            Err(e) => rep.violation("C19/roundtrip/error", idx, json!({"err": format!("{e:?}")})),
        }
        // rotated box cannot be converted
        if BoundingBox::try_from(&u.clone().rotate(0.5)).is_ok() {
            rep.violation("C19/roundtrip/rotated-accepted", idx, json!({}));
        }

        // --- polygon
        let angle: Option<f32> = match rng.usize(7) {
            // tiny non-zero angles: still a rotation (vertex displacement = angle x half-diagonal)
            6 => Some((rng.log_uniform(1e-8, 1e-4) * if rng.chance(0.5) { 1.0 } else { -1.0 }) as f32),
            0 => None,
            1 => Some(0.0),
            2 => Some((rng.range(-8, 8) as f32) * std::f32::consts::FRAC_PI_2),
            3 => Some(rng.uniform(-30.0, 30.0) as f32),
            _ => Some(rng.uniform(0.0, std::f64::consts::TAU) as f32),
        };
        let xc = (rng.uniform(-1.0, 1.0) * mag) as f32;
        let yc = (rng.uniform(-1.0, 1.0) * mag) as f32;
        let aspect = rng.log_uniform(0.05, 20.0) as f32;
        let hh = rng.log_uniform(1e-2, 1e4) as f32;
        // a quarter of the boxes reach these parameters through public field writes AFTER gen_vertices() cached the polygon
        // of an earlier state (the polygon is a function of the current parameters only), or through rotate_mut()
        let mut api_changed = false;
        let mut by_value = false;
        let ub = match rng.usize(8) {
            0 => {
                let mut t = Universal2DBox::new(xc + 3.0 * hh, yc - hh, Some(angle.unwrap_or(0.0) + 0.7), aspect * 1.3, hh * 0.8);
                t.gen_vertices();
                t.xc = xc;
                t.yc = yc;
                t.angle = angle;
                t.aspect = aspect;
                t.height = hh;
                rep.count("polygons_after_field_writes_following_gen_vertices");
                t
            }
            1 if angle.is_some() => {
                let mut t = Universal2DBox::new(xc, yc, Some(0.4), aspect, hh);
                t.gen_vertices();
                t.rotate_mut(angle.unwrap());
                api_changed = true;
                rep.count("polygons_after_rotate_mut_following_gen_vertices");
                t
            }
            2 if angle.is_some() => {
                // the by-value builder after gen_vertices(): the new box must not carry the polygon of the old angle
                let mut t = Universal2DBox::new(xc, yc, Some(angle.unwrap() + 0.9), aspect, hh);
                t.gen_vertices();
                api_changed = true;
                by_value = true;
                rep.count("polygons_after_rotate(by value)_following_gen_vertices");
                t.rotate(angle.unwrap())
            }
            _ => Universal2DBox::new(xc, yc, angle, aspect, hh),
        };
        if api_changed {
            // a box brought to its parameters through the API only: whatever polygon it carries, and the polygon the
            // consuming clip method works with, is the polygon of the CURRENT parameters
            let w = hh as f64 * aspect as f64;
            let refp = geom::rect(xc as f64, yc as f64, angle.unwrap_or(0.0) as f64, w, hh as f64);
            let scale = (xc.abs() as f64).max(yc.abs() as f64) + w + hh as f64;
            if let Some(p) = ub.get_cached_vertices() {
                let ext: Vec<(f64, f64)> = p.exterior().0.iter().map(|c| (c.x, c.y)).collect();
                let okc = ext.len() == 5 && refp.iter().all(|r| ext.iter().any(|v| (v.0 - r.0).abs() <= 1e-9 * scale && (v.1 - r.1).abs() <= 1e-9 * scale));
                if !okc {
                    rep.violation("C19/polygon/carried-polygon-of-an-earlier-state", idx, json!({"box": [xc, yc, angle, aspect, hh], "carried": ext, "reference": refp}));
                }
            }
            // (clone() rebuilds the box from its parameters, so a twin is brought to the same state the same way)
            let twin = if by_value {
                let mut t = Universal2DBox::new(xc, yc, Some(angle.unwrap() + 0.9), aspect, hh);
                t.gen_vertices();
                t.rotate(angle.unwrap())
            } else {
                let mut t = Universal2DBox::new(xc, yc, Some(0.4), aspect, hh);
                t.gen_vertices();
                t.rotate_mut(angle.unwrap());
                t
            };
            let clip = Universal2DBox::sutherland_hodgman_clip(twin, Universal2DBox::new(xc, yc, angle, aspect, hh));
            let ca = {
                let e: Vec<(f64, f64)> = clip.exterior().0.iter().map(|c| (c.x, c.y)).collect();
                if e.len() >= 4 { geom::shoelace(&e[..e.len() - 1]).abs() } else { 0.0 }
            };
            let la = hh as f64 * w;
            // (only when the box is large enough next to its coordinates for the clip of a box with itself to be meaningful)
            if w.min(hh as f64) > 1e-3 * scale && (ca - la).abs() > 1e-3 * la {
                rep.violation("C19/polygon/clip-method-uses-polygon-of-an-earlier-state", idx, json!({"box": [xc, yc, angle, aspect, hh], "self_clip_area": ca, "area": la}));
            }
            rep.count("api_changed_boxes_checked(carried polygon, self-clip)");
        }
        h.f32(xc).f32(yc).f32(angle.unwrap_or(-99.0)).f32(aspect).f32(hh);
        {
            let poly = ub.get_vertices();
            let ext: Vec<(f64, f64)> = poly.exterior().0.iter().map(|c| (c.x, c.y)).collect();
            let w = hh as f64 * aspect as f64;
            let refp = geom::rect(xc as f64, yc as f64, angle.unwrap_or(0.0) as f64, w, hh as f64);
            let scale = (xc.abs() as f64).max(yc.abs() as f64) + w + hh as f64;
            let tol = 1e-9 * scale;
            let mut ok = ext.len() == 5 && ext[0] == ext[4] && poly.interiors().is_empty();
            let verts = &ext[..ext.len().saturating_sub(1).min(4)];
            let mut used = [false; 4];
            for r in &refp {
                let mut found = false;
                for (k, v) in verts.iter().enumerate() {
                    if !used[k] && (v.0 - r.0).abs() <= tol && (v.1 - r.1).abs() <= tol {
                        used[k] = true;
                        found = true;
                        break;
                    }
                }
                ok &= found;
            }
            if !ok {
                rep.violation("C19/polygon/vertices", idx, json!({"box": [xc, yc, angle, aspect, hh], "polygon": ext, "reference": refp}));
            } else {
                let a = geom::shoelace(verts);
                let la = ub.area() as f64;
                rep.max("polygon_area_rel_err", (a - la).abs() / la);
                if (a - la).abs() > 1e-5 * la {
                    rep.violation("C19/polygon/area", idx, json!({"box": [xc, yc, angle, aspect, hh], "polygon_area": a, "area()": la}));
                }
                let c = geom::centroid_area(verts);
                if (c.0 - xc as f64).abs() > 1e-6 * scale || (c.1 - yc as f64).abs() > 1e-6 * scale {
                    rep.violation("C19/polygon/centre", idx, json!({"box": [xc, yc, angle, aspect, hh], "centroid": [c.0, c.1]}));
                }
                let r = verts.iter().map(|v| ((v.0 - xc as f64).powi(2) + (v.1 - yc as f64).powi(2)).sqrt()).fold(0.0, f64::max);
                let lr = ub.get_radius() as f64;
                rep.max("radius_rel_err", (r - lr).abs() / lr);
                if (r - lr).abs() > 1e-5 * lr {
                    rep.violation("C19/polygon/radius", idx, json!({"box": [xc, yc, angle, aspect, hh], "max_vertex_radius": r, "get_radius()": lr}));
                }
            }
        }

        // --- equality
        #[allow(clippy::eq_op)]
        if !(bb == bb) || !(ub == ub) {
            rep.violation("C19/eq/reflexive", idx, json!({"bb": [left, top, width, height, conf], "ub": [xc, yc, angle, aspect, hh]}));
        }
        let eps = EPS as f64;
        for f in 0..5 {
            for d in deltas {
                // BoundingBox
                let base = bb_field(&bb, f);
                let v = base + d;
                if !(f == 4 && !(0.0..=1.0).contains(&v)) {
                    let other = bb_with(&bb, f, v);
                    let actual = (v as f64 - base as f64).abs();
                    let ab = bb == other;
                    let ba = other == bb;
                    rep.count("eq_pairs");
                    if ab != ba {
                        rep.violation(&format!("C19/eq/BoundingBox/asymmetric/{}", BB_NAMES[f]), idx, json!({"field": BB_NAMES[f], "a": base, "b": v, "a==b": ab, "b==a": ba}));
                    }
                    if actual < eps * 0.98 {
                        rep.count("eq_expected_equal");
                        if !(ab && ba) {
                            rep.violation(&format!("C19/eq/BoundingBox/close-but-unequal/{}", BB_NAMES[f]), idx, json!({"field": BB_NAMES[f], "a": base, "b": v}));
                        }
                    } else if actual > eps * 1.02 {
                        rep.count("eq_expected_unequal");
                        if ab || ba {
                            rep.violation(&format!("C19/eq/BoundingBox/far-but-equal/{}", BB_NAMES[f]), idx, json!({"field": BB_NAMES[f], "a": base, "b": v, "a==b": ab, "b==a": ba}));
                        }
                    } else {
                        rep.count("eq_skipped_in_band");
                    }
                }
                // Universal2DBox
                let base = u_field(&ub, f);
                let v = base + d;
                if (f == 3 || f == 4) && v <= 0.0 {
                    continue;
                }
                let other = u_with(&ub, f, v);
                let actual = (v as f64 - base as f64).abs();
                let ab = ub == other;
                let ba = other == ub;
                rep.count("eq_pairs");
                if ab != ba {
                    rep.violation(&format!("C19/eq/Universal2DBox/asymmetric/{}", U_NAMES[f]), idx, json!({"field": U_NAMES[f], "a": base, "b": v, "a==b": ab, "b==a": ba}));
                }
                if actual < eps * 0.98 {
                    rep.count("eq_expected_equal");
                    if !(ab && ba) {
                        rep.violation(&format!("C19/eq/Universal2DBox/close-but-unequal/{}", U_NAMES[f]), idx, json!({"field": U_NAMES[f], "a": base, "b": v}));
                    }
                } else if actual > eps * 1.02 {
                    rep.count("eq_expected_unequal");
                    if ab || ba {
                        rep.violation(&format!("C19/eq/Universal2DBox/far-but-equal/{}", U_NAMES[f]), idx, json!({"field": U_NAMES[f], "a": base, "b": v, "a==b": ab, "b==a": ba}));
                    }
                } else {
                    rep.count("eq_skipped_in_band");
                }
            }
        }

        // --- several coordinates perturbed at once (each by less than EPS => equal; any by clearly more => unequal)
        for _ in 0..6 {
            let all_small = rng.chance(0.5);
            let mut bo = bb;
            let mut uo = ub.clone();
            let (mut maxb, mut maxu) = (0.0f64, 0.0f64);
            let (mut okb, mut oku) = (true, true);
            for f in 0..5 {
                if !rng.chance(0.6) {
                    continue;
                }
                let d = if all_small { (rng.uniform(0.3, 0.95) * EPS as f64) as f32 } else if rng.chance(0.4) { 4.0 * EPS } else { (rng.uniform(0.3, 0.95) * EPS as f64) as f32 } * if rng.chance(0.5) { 1.0 } else { -1.0 };
                let base = bb_field(&bb, f);
                let v = base + d;
                if !(f == 4 && !(0.0..=1.0).contains(&v)) && !((f == 2 || f == 3) && v <= 0.0) {
                    bo = bb_with(&bo, f, v);
                    let a = (v as f64 - base as f64).abs();
                    maxb = maxb.max(a);
                    if a > 0.98 * eps && a < 1.02 * eps {
                        okb = false;
                    }
                }
                let base = u_field(&ub, f);
                let v = base + d;
                if !((f == 3 || f == 4) && v <= 0.0) {
                    uo = u_with(&uo, f, v);
                    let a = (v as f64 - base as f64).abs();
                    maxu = maxu.max(a);
                    if a > 0.98 * eps && a < 1.02 * eps {
                        oku = false;
                    }
                }
            }
            rep.count("eq_multi_coordinate_pairs");
            if okb {
                let (ab, ba) = (bb == bo, bo == bb);
                let expect = maxb < 0.98 * eps;
                if ab != ba || ab != expect {
                    rep.violation(if expect { "C19/eq/BoundingBox/all-close-but-unequal" } else { "C19/eq/BoundingBox/some-far-but-equal" }, idx, json!({"a": [bb.left, bb.top, bb.width, bb.height, bb.confidence], "b": [bo.left, bo.top, bo.width, bo.height, bo.confidence], "a==b": ab, "b==a": ba, "largest_difference": maxb}));
                }
            }
            if oku {
                let (ab, ba) = (ub == uo, uo == ub);
                let expect = maxu < 0.98 * eps;
                if ab != ba || ab != expect {
                    rep.violation(if expect { "C19/eq/Universal2DBox/all-close-but-unequal" } else { "C19/eq/Universal2DBox/some-far-but-equal" }, idx, json!({"a": [ub.xc, ub.yc, ub.angle, ub.aspect, ub.height], "b": [uo.xc, uo.yc, uo.angle, uo.aspect, uo.height], "a==b": ab, "b==a": ba, "largest_difference": maxu}));
                }
            }
        }

        // --- normalize_angle
        for _ in 0..4 {
            let a = match rng.usize(4) {
                0 => rng.uniform(-7.0, 7.0) as f32,
                1 => (rng.range(-40, 40) as f32) * std::f32::consts::FRAC_PI_2,
                2 => rng.uniform(-1e4, 1e4) as f32,
                _ => (rng.uniform(-1.0, 1.0) * rng.log_uniform(1e-8, 1e2)) as f32,
            };
            let r = normalize_angle(a);
            let two_pi_f32 = 2.0 * std::f32::consts::PI;
            rep.count("normalize_checks");
            let tau = std::f64::consts::TAU;
            // "between 0 and 2*pi ... up to rounding": the subtraction a - n*2pi is carried out in f32, so the
            // result can overshoot by a few ulp of |a|
            let tol = 4.0 * ulp32(a.abs().max(two_pi_f32));
            if !(r as f64 >= 0.0 && r as f64 <= tau + tol) {
                rep.violation("C19/normalize/range", idx, json!({"a": a, "normalized": r}));
            }
            let k = ((r as f64 - a as f64) / tau).round();
            let resid = (r as f64 - a as f64 - k * tau).abs();
            rep.max("normalize_resid_in_ulp", resid / ulp32(a.abs().max(two_pi_f32)));
            if resid > tol {
                rep.violation("C19/normalize/congruence", idx, json!({"a": a, "normalized": r, "residual": resid, "tol": tol}));
            }
        }
        rep.nontrivial(h.get());
        if rep.want_sample() {
            rep.sample(json!({"BoundingBox": [left, top, width, height, conf], "Universal2DBox": [xc, yc, angle, aspect, hh], "deltas": deltas}));
        }
    }
    rep.finish();
}
