//! C05 — tracking results are independent of shard count and thread schedule.
use std::collections::HashMap;
use vh::posref::{judge_call, same_grouping, Judgement};
use vh::rng::Hasher;
use vh::sched::{Controller, Mode, Token};
use vh::trk::*;
use vh::watchdog::Watchdog;
use vh::{json, Cli, Report, Rng};

#[derive(Clone, Debug)]
enum Plan {
    Free,
    Delay(u64),
    WorkerLast(u64),
    WorkerFirst(u64),
}

fn script_for(plan: &Plan, shards: usize, ncand: usize) -> Option<Vec<Token>> {
    let order: Vec<u64> = match plan {
        Plan::WorkerLast(k) => (0..shards as u64).filter(|j| j != k).chain(std::iter::once(*k)).collect(),
        Plan::WorkerFirst(k) => std::iter::once(*k).chain((0..shards as u64).filter(|j| j != k)).collect(),
        _ => return None,
    };
    let mut v = vec![];
    for w in order {
        for _ in 0..ncand {
            v.push(Token::Worker(w));
        }
    }
    Some(v)
}

struct RunOut {
    recs: Vec<Vec<Rec>>,
    pres: Vec<Vec<LiveTrack>>,
    epochs: Vec<usize>,
}

fn run(cfg: &Cfg, calls: &[(u64, Vec<Det>)], plan: &Plan, ctl: Option<&Controller>, rep: &mut Report, keep_pre: bool, wd: Option<&Watchdog>) -> RunOut {
    let gated = matches!(plan, Plan::WorkerLast(_) | Plan::WorkerFirst(_));
    if let (Some(w), false) = (wd, gated) {
        w.arm(format!("cfg={:?} plan={:?}", cfg, plan));
    }
    let mut trk = AnyTracker::new(cfg);
    let mut out = RunOut { recs: vec![], pres: vec![], epochs: vec![] };
    for (scene, dets) in calls {
        out.pres.push(if keep_pre { trk.live() } else { vec![] });
        out.epochs.push(trk.epoch(*scene) + 1);
        if let Some(c) = ctl {
            match plan {
                Plan::Free => c.set_mode(Mode::Record),
                Plan::Delay(seed) => c.set_mode(Mode::Delay { seed: *seed, intensity: 50, max_sleep_us: 300 }),
                p => c.set_mode(Mode::Gate { script: script_for(p, cfg.shards, dets.len()).unwrap() }),
            }
        }
        let r = trk.predict(*scene, dets);
        if let Some(c) = ctl {
            let (ev, stalled) = c.finish();
            if stalled {
                rep.count("gate_scripts_stalled");
            }
            // order in which the workers delivered their distance chunks in this call
            let mut h = Hasher::new();
            let mut n = 0;
            for (s, a) in &ev {
                if *s == "store.cmd.end" && (a & 0xff) == 2 {
                    h.u64(a >> 8);
                    n += 1;
                }
            }
            if n > 1 {
                rep.seen("chunk_arrival_order_signatures", h.get());
            }
        }
        out.recs.push(r);
        if let Some(w) = wd {
            w.beat();
        }
    }
    drop(trk);
    if let Some(w) = wd {
        w.disarm();
    }
    out
}

fn main() {
    let cli = Cli::parse();
    let mut rep = Report::new("C05", &cli);
    rep.note("rule", json!("case = Sort / VisualSort history of 20..50 predict calls (crowd / convoy / crossing / random presets over 1..2 scenes, no bit-identical detections). Reference run: 1 shard, no perturbation. The same history is then run for every shard count 2..8 under several schedules installed at the guarded worker schedule points: free, seeded random delay plans, and gate scripts that force a chosen worker to deliver all of its distance chunks last (or first), so the arrival order of the partial results - which feeds matrix row/column order and hash-map insertion order - is varied systematically. Records must be identical to the reference, track ids included. A grouping difference is handed to the explain-divergence oracle (violation unless both outcomes are valid optimal associations per the C02 / C12 references = near tie, counted); equal grouping with different numbers or ids is always a violation. Non-trivial: (history, shard count, plan) runs with >= 2 shards whose calls had >= 2 candidates; distinct chunk-arrival-order signatures are counted."));
    rep.note("assumptions", json!(["inputs without exact ties (generic float positions); residual near-ties are recognised by the reference objective and counted, capped at 0.1% of compared calls"]));
    let ctl = if cli.small { None } else { Some(Controller::install()) };
    let wd = if cli.small { None } else { Some(Watchdog::start(&cli, "C05", ctl.clone())) };
    let n = cli.cases(96, 1500);
    for idx in cli.index_range(n) {
        let mut rng = Rng::for_case(cli.seed, cli.shard, idx);
        let kind = if idx % 3 == 2 { Kind::Visual } else { Kind::Sort };
        // (the case index is per process, so rare variants are drawn, not taken modulo)
        let wide = rng.chance(0.15);
        let mut cfg = gen_cfg(&mut rng, kind);
        cfg.max_idle = 1 + rng.usize(3);
        cfg.shards = 1;
        let low_conf = rng.chance(0.2);
        if low_conf && rng.chance(0.7) {
            // very low confidences under the lowest admissible floor: Mahalanobis weights (100 - d2) / conf reach 1e4
            cfg.pos = PosMetric::Maha;
            cfg.min_conf = 0.01;
        }
        let w = WorldOpts {
            scenes: 1 + rng.usize(2),
            same_region: rng.chance(0.3),
            preset: if wide { "random" } else { *rng.pick(&["crowd", "convoy", "crossing", "random", "lookalikes"]) },
            rotated: rng.chance(0.2),
            features: kind.is_visual(),
            feat_dim: 4,
            duplicates: false,
            // about every 7th history has wide frames (36..45 objects): shards x detections exceeds a few hundred partial results
            nobj: if wide { 36 + rng.usize(10) } else { 2 + rng.usize(6) },
            steps: 40,
            low_quality: false,
            avoid_coincident: kind.is_visual() && (cfg.vis.own_use + cfg.vis.own_collect > 0.0),
            low_conf,
            vary_nobj: false,
        };
        let h = HistOpts { len: if cli.small { 3 } else if wide { 6 } else { 20 + rng.usize(31) }, lifecycle_ops: false, clear_wasted: false, auto_waste_ops: false, batches: false, empty_calls: true };
        let ops = gen_history(&mut rng, &w, &h);
        let calls: Vec<(u64, Vec<Det>)> = ops.iter().filter_map(|o| if let Op::Predict { scene, dets } = o { Some((*scene, dets.clone())) } else { None }).collect();
        rep.eval();
        let base = run(&cfg, &calls, &Plan::Free, None, &mut rep, true, wd.as_deref());
        let shard_counts: Vec<usize> = if cli.small { vec![3] } else { (2..=8).collect() };
        'variants: for shards in shard_counts {
            let mut c2 = cfg.clone();
            c2.shards = shards;
            let mut plans = vec![Plan::Free, Plan::Delay(rng.u64())];
            if !cli.small {
                plans.push(Plan::WorkerLast(rng.below(shards as u64)));
                if cli.thorough() {
                    plans.push(Plan::WorkerFirst(rng.below(shards as u64)));
                    plans.push(Plan::Delay(rng.u64()));
                    plans.push(Plan::WorkerLast(rng.below(shards as u64)));
                }
            } else {
                plans.truncate(1);
            }
            for plan in plans {
                let out = run(&c2, &calls, &plan, ctl.as_deref(), &mut rep, false, wd.as_deref());
                rep.count("variant_runs");
                let mut map: HashMap<u64, u64> = HashMap::new();
                let mut rev: HashMap<u64, u64> = HashMap::new();
                for (k, (a, b)) in base.recs.iter().zip(out.recs.iter()).enumerate() {
                    rep.count("calls_compared");
                    if a == b {
                        let _ = bijection_check(a, b, &mut map, &mut rev);
                        continue;
                    }
                    let ctx = json!({"cfg": cfg.js(), "shards": shards, "plan": format!("{:?}", plan), "call": k, "reference(1 shard)": a.iter().map(|r| r.js()).collect::<Vec<_>>(), "variant": b.iter().map(|r| r.js()).collect::<Vec<_>>()});
                    if same_grouping(a, b, &map, &rev) {
                        rep.violation(&format!("C05/{:?}/records-differ-with-equal-grouping", kind), idx, ctx);
                    } else {
                        // explain: is the variant's outcome a valid optimal association from the (shared) pre-state?
                        let (scene, dets) = &calls[k];
                        let ja = judge_call(&cfg, *scene, base.epochs[k], dets, a, &base.pres[k]);
                        let jb = judge_call(&cfg, *scene, base.epochs[k], dets, b, &base.pres[k]);
                        match (ja, jb) {
                            (Judgement::Valid, Judgement::Valid) | (Judgement::Undecidable(_), _) | (_, Judgement::Undecidable(_)) => rep.count("tie_divergences"),
                            (Judgement::Invalid(sig, d), _) => rep.violation(&format!("C05/{:?}/grouping-differs/reference-run-invalid/{}", kind, sig), idx, json!({"ctx": ctx, "detail": d})),
                            (_, Judgement::Invalid(sig, d)) => rep.violation(&format!("C05/{:?}/grouping-differs/variant-outcome-invalid/{}", kind, sig), idx, json!({"ctx": ctx, "detail": d})),
                        }
                    }
                    continue 'variants;
                }
                if calls.iter().any(|c| c.1.len() >= 2) {
                    let mut hh = Hasher::new();
                    hh.u64(idx).u64(shards as u64).str(&format!("{:?}", plan));
                    rep.nontrivial(hh.get());
                }
            }
        }
        if rep.want_sample() {
            rep.sample(json!({"cfg": cfg.js(), "calls": calls.len(), "first_call": calls.first().map(|c| c.1.iter().map(|d| d.js()).collect::<Vec<_>>()), "reference_ids_first_calls": base.recs.iter().take(3).map(|r| r.iter().map(|x| x.id).collect::<Vec<_>>()).collect::<Vec<_>>()}));
        }
    }
    rep.finish();
}
