//! C05 — tracking results are independent of shard count and thread schedule.
use std::collections::HashMap;
use vh::posref::{judge_call, same_grouping, Judgement};
use vh::rng::Hasher;
use vh::sched::{Controller, Mode, Token};
use vh::trk::*;
use vh::watchdog::Watchdog;
use vh::{json, Cli, Report, Rng, Value};

#[derive(Clone, Debug)]
enum Plan {
    Free,
    Delay(u64),
    WorkerLast(u64),
    WorkerFirst(u64),
}

fn script_for(plan: &Plan, shards: usize, ncand: usize) -> Option<Vec<Token>> {
    let order: Vec<u64> = match plan {
        Plan::WorkerLast(k) => (0..shards as u64).filter(|j| j != k).chain(std::iter::once(*k)).collect(),
        Plan::WorkerFirst(k) => std::iter::once(*k).chain((0..shards as u64).filter(|j| j != k)).collect(),
        _ => return None,
    };
    let mut v = vec![];
    for w in order {
        for _ in 0..ncand {
            v.push(Token::Worker(w));
        }
    }
    Some(v)
}

/// what one operation of the history lets the caller observe
#[derive(Clone, Debug, PartialEq)]
enum Obs {
    Recs(Vec<Rec>),
    Wasted(Vec<WastedRec>),
    Idle(Vec<Rec>),
    Epoch(u64, usize),
}

struct RunOut {
    obs: Vec<Obs>,
    pres: Vec<Vec<LiveTrack>>,
    epochs: Vec<usize>,
    /// tracks held (live store + wasted store) after the operation; None where the run was not quiescent
    totals: Vec<Option<usize>>,
    /// stored gallery entries at the end of the run (= distance records one candidate gets back, summed over shards)
    final_gallery_entries: usize,
}

/// pending batch: (operation slot, scene) of every scene it holds + the receiver of its consumer thread
type Pending = (Vec<(usize, u64)>, std::sync::mpsc::Receiver<Vec<(u64, Vec<Rec>)>>);

fn drain(pending: &mut Vec<Pending>, out: &mut RunOut) -> bool {
    for (slots, rx) in pending.drain(..) {
        match rx.recv() {
            Ok(v) if v.len() == slots.len() => {
                for (k, scene) in slots {
                    match v.iter().find(|x| x.0 == scene) {
                        Some(x) => out.obs[k] = Obs::Recs(x.1.clone()),
                        None => return false,
                    }
                }
            }
            _ => return false,
        }
    }
    true
}

/// `pipelined` (batch kinds only): every predict is a one-scene batch whose result object is handed to a consumer thread
/// started before the call; the next batch is submitted without waiting for the previous results (the second retrieval
/// discipline the batch API allows). Lifecycle operations wait until everything submitted so far has been retrieved.
/// `keep_pre`: -2 = snapshot the store before every predict, -1 = never, k >= 0 = only before operation k
/// `groups`: batch kinds only - consecutive predict operations carrying the same group number are submitted as ONE batch
/// holding several scenes
fn run(cfg: &Cfg, ops: &[Op], groups: Option<&[usize]>, plan: &Plan, pipelined: bool, ctl: Option<&Controller>, rep: &mut Report, keep_pre: i64, wd: Option<&Watchdog>) -> Option<RunOut> {
    let gated = matches!(plan, Plan::WorkerLast(_) | Plan::WorkerFirst(_));
    if let (Some(w), false) = (wd, gated) {
        w.arm(format!("cfg={:?} plan={:?} pipelined={}", cfg, plan, pipelined));
    }
    let mut trk = AnyTracker::new(cfg);
    let mut out = RunOut { obs: vec![], pres: vec![], epochs: vec![], totals: vec![], final_gallery_entries: 0 };
    let mut pending: Vec<Pending> = vec![];
    let mut grouped_until = 0usize;
    let set_mode = |c: &Controller, ndets: Option<usize>| match (plan, ndets) {
        (Plan::Free, _) => c.set_mode(Mode::Record),
        (Plan::Delay(seed), _) => c.set_mode(Mode::Delay { seed: *seed, intensity: 50, max_sleep_us: 300 }),
        (p, Some(n)) => c.set_mode(Mode::Gate { script: script_for(p, cfg.shards, n).unwrap() }),
        (_, None) => c.set_mode(Mode::Record),
    };
    if let (Some(c), true) = (ctl, pipelined) {
        set_mode(c, None);
    }
    let held = |t: &AnyTracker| t.active_stats().iter().sum::<usize>() + t.wasted_stats().iter().sum::<usize>();
    for (k, op) in ops.iter().enumerate() {
        if k < grouped_until {
            continue;
        }
        // a multi-scene batch: operations k..j
        if let (Some(g), Op::Predict { .. }) = (groups, op) {
            let mut j = k + 1;
            while j < ops.len() && g[j] == g[k] && g[k] != usize::MAX {
                j += 1;
            }
            if j - k >= 2 {
                let pre = if keep_pre == -2 || (keep_pre >= k as i64 && keep_pre < j as i64) { trk.live() } else { vec![] };
                let batch: Vec<(u64, Vec<Det>)> = (k..j).map(|i| match &ops[i] { Op::Predict { scene, dets } => (*scene, dets.clone()), _ => unreachable!() }).collect();
                for (s, _) in &batch {
                    out.pres.push(pre.clone());
                    out.epochs.push(if pipelined { 0 } else { trk.epoch(*s) + 1 });
                }
                if pipelined {
                    for _ in k..j {
                        out.obs.push(Obs::Recs(vec![]));
                        out.totals.push(None);
                    }
                    pending.push(((k..j).zip(batch.iter().map(|b| b.0)).collect(), trk.submit_with_consumer(&batch)));
                } else {
                    if let Some(c) = ctl {
                        set_mode(c, None);
                    }
                    let res = trk.predict_batch(&batch);
                    if let Some(c) = ctl {
                        let _ = c.finish();
                    }
                    for (s, _) in &batch {
                        match res.iter().find(|x| x.0 == *s) {
                            Some(x) => out.obs.push(Obs::Recs(x.1.clone())),
                            None => return None,
                        }
                        out.totals.push(None);
                    }
                    let n = out.totals.len();
                    out.totals[n - 1] = Some(held(&trk));
                }
                rep.count("multi_scene_batches_submitted");
                grouped_until = j;
                if let Some(w) = wd {
                    w.beat();
                }
                continue;
            }
        }
        match op {
            Op::Predict { scene, dets } => {
                out.pres.push(if keep_pre == -2 || keep_pre == k as i64 { trk.live() } else { vec![] });
                out.epochs.push(if pipelined { 0 } else { trk.epoch(*scene) + 1 });
                if pipelined && !dets.is_empty() {
                    out.obs.push(Obs::Recs(vec![]));
                    out.totals.push(None);
                    pending.push((vec![(k, *scene)], trk.submit_with_consumer(&[(*scene, dets.clone())])));
                } else {
                    if let (Some(c), false) = (ctl, pipelined) {
                        set_mode(c, Some(dets.len()));
                    }
                    let r = trk.predict(*scene, dets);
                    if let (Some(c), false) = (ctl, pipelined) {
                        let (ev, stalled) = c.finish();
                        if stalled {
                            rep.count("gate_scripts_stalled");
                        }
                        // order in which the workers delivered their distance chunks in this call
                        let mut h = Hasher::new();
                        let mut n = 0;
                        for (s, a) in &ev {
                            if *s == "store.cmd.end" && (a & 0xff) == 2 {
                                h.u64(a >> 8);
                                n += 1;
                            }
                        }
                        if n > 1 {
                            rep.seen("chunk_arrival_order_signatures", h.get());
                        }
                    }
                    out.obs.push(Obs::Recs(r));
                    out.totals.push(if pipelined { None } else { Some(held(&trk)) });
                }
            }
            other => {
                if !drain(&mut pending, &mut out) {
                    return None;
                }
                out.pres.push(vec![]);
                out.epochs.push(0);
                let o = match other {
                    Op::Skip { scene, n } => {
                        trk.skip_epochs(*scene, *n);
                        Obs::Epoch(*scene, trk.epoch(*scene))
                    }
                    Op::Wasted => {
                        let mut w = trk.wasted();
                        w.sort_by_key(|t| t.id);
                        Obs::Wasted(w)
                    }
                    Op::Idle { scene } => {
                        let mut v = trk.idle(*scene);
                        v.sort_by_key(|t| t.id);
                        Obs::Idle(v)
                    }
                    _ => Obs::Epoch(0, 0),
                };
                out.obs.push(o);
                out.totals.push(Some(held(&trk)));
            }
        }
        if let Some(w) = wd {
            w.beat();
        }
    }
    if !drain(&mut pending, &mut out) {
        return None;
    }
    if let (Some(c), true) = (ctl, pipelined) {
        let _ = c.finish();
    }
    out.final_gallery_entries = if keep_pre != -1 { trk.live().iter().map(|t| t.gallery.len()).sum() } else { 0 };
    drop(trk);
    if let Some(w) = wd {
        w.disarm();
    }
    Some(out)
}

/// a history made for gallery volume: `nobj` well separated objects, all detected in every frame with a feature that is
/// always collected, so that after `frames` frames every candidate gets back nobj x frames distance records
fn long_gallery_ops(rng: &mut Rng, nobj: usize, frames: usize) -> Vec<Op> {
    let protos: Vec<Vec<f32>> = (0..nobj).map(|_| {
        let v: Vec<f64> = (0..4).map(|_| rng.normal()).collect();
        let n = v.iter().map(|x| x * x).sum::<f64>().sqrt().max(1e-9);
        v.iter().map(|x| (x / n) as f32).collect()
    }).collect();
    let mut pos: Vec<(f64, f64, f64, f64)> = (0..nobj).map(|k| ((k % 6) as f64 * 300.0 + 100.0, (k / 6) as f64 * 300.0 + 100.0, rng.uniform(-1.0, 1.0), rng.uniform(-1.0, 1.0))).collect();
    let mut ops = vec![];
    for _ in 0..frames {
        let mut dets = vec![];
        for (k, p) in pos.iter_mut().enumerate() {
            p.0 += p.2;
            p.1 += p.3;
            let b = DBox { xc: (p.0 + rng.normal() * 0.3) as f32, yc: (p.1 + rng.normal() * 0.3) as f32, angle: None, aspect: 0.8, h: (60.0 * rng.uniform(0.99, 1.01)) as f32, conf: 1.0 };
            dets.push(Det { b, custom: Some(k as i64), feature: Some(protos[k].iter().map(|x| x + (rng.normal() * 0.03) as f32).collect()), quality: Some(0.9), truth: k as u32 });
        }
        ops.push(Op::Predict { scene: 0, dets });
    }
    ops
}

/// variant-run ids -> reference-run ids (ids the reference never saw become fresh ids, i.e. new tracks)
fn translate(recs: &[Rec], rev: &HashMap<u64, u64>) -> Vec<Rec> {
    recs.iter().map(|r| {
        let mut t = r.clone();
        t.id = rev.get(&r.id).cloned().unwrap_or((1u64 << 62) | r.id);
        t
    }).collect()
}

fn main() {
    let cli = Cli::parse();
    let mut rep = Report::new("C05", &cli);
    rep.note("rule", json!("case = Sort / VisualSort / BatchSort / BatchVisualSort history of 20..50 operations (predict calls from the crowd / convoy / crossing / random presets over 1..2 scenes, no bit-identical detections; a third of the histories also contain skip_epochs, wasted and idle_tracks calls, whose return values - and the number of tracks held - are compared as well; some visual histories (two per quick run, a quarter in the thorough tier) have 16 objects whose galleries grow to 285 features - about 4500 distance records per candidate from a single shard -, compared between 1 shard and one of 2 / 3 / 4 / 8 shards). Batch kinds are driven with one-scene batches (40% of their histories: multi-scene batches of 2..4 scenes), sequentially and pipelined (consumer thread per batch, next batch submitted before the previous results are read); their ids are compared up to the incrementally built bijection. Reference run: 1 shard, no perturbation. The same history is then run for every shard count 2..8 under several schedules installed at the guarded worker schedule points: free, seeded random delay plans, and gate scripts that force a chosen worker to deliver all of its distance chunks last (or first), so the arrival order of the partial results - which feeds matrix row/column order and hash-map insertion order - is varied systematically. Records must be identical to the reference, track ids included. A grouping difference is handed to the explain-divergence oracle (violation unless both outcomes are valid optimal associations per the C02 / C12 references = near tie, counted); equal grouping with different numbers or ids is always a violation. Non-trivial: (history, shard count, plan) runs with >= 2 shards whose calls had >= 2 candidates; distinct chunk-arrival-order signatures are counted."));
    rep.note("assumptions", json!(["inputs without exact ties (generic float positions); residual near-ties are recognised by the reference objective and counted, capped at 0.1% of compared calls"]));
    let ctl = if cli.small { None } else { Some(Controller::install()) };
    let wd = if cli.small { None } else { Some(Watchdog::start(&cli, "C05", ctl.clone())) };
    let n = cli.cases(192, 1500);
    for idx in cli.index_range(n) {
        let mut rng = Rng::for_case(cli.seed, cli.shard, idx);
        let kind = match idx % 6 {
            2 => Kind::Visual,
            3 => Kind::BatchSort,
            5 => Kind::BatchVisual,
            _ => Kind::Sort,
        };
        // (the case index is per process, so rare variants are drawn, not taken modulo)
        // (quick tier: two of the processes run one long-gallery history each, see below)
        let lg_pick = !cli.small && !cli.thorough() && cli.shard < 2 && idx == 2 + 3 * cli.shard;
        let wide = rng.chance(0.15) && !lg_pick;
        let mut cfg = gen_cfg(&mut rng, kind);
        cfg.max_idle = 1 + rng.usize(3);
        cfg.shards = 1;
        let low_conf = rng.chance(0.2);
        if low_conf && rng.chance(0.7) {
            // very low confidences under the lowest admissible floor: Mahalanobis weights (100 - d2) / conf reach 1e4
            cfg.pos = PosMetric::Maha;
            cfg.min_conf = 0.01;
        }
        // a third of the histories mix lifecycle calls in (skip, wasted, idle): what they return is part of what the
        // tracker reports; many tracks then expire together and are collected across several shards at once
        let lifecycle = !wide && !lg_pick && rng.chance(0.35);
        if lifecycle {
            cfg.max_idle = rng.usize(3);
            rep.count("histories_with_lifecycle_calls");
        }
        // a quarter of the visual histories: 16 well separated objects detected in each of 285 frames with an always-collected feature (galleries of 285 features), so
        // that one candidate's partial result from one shard holds thousands of distance records with few shards and
        // far fewer with many
        // (quick tier: two of the processes run one such history each; thorough tier: a quarter of the visual histories)
        let long_gallery = kind.is_visual() && !wide && !lifecycle && !cli.small && if cli.thorough() { rng.chance(0.25) } else { lg_pick };
        if long_gallery {
            cfg.vis.max_obs = 300;
            // a threshold no pair exceeds: every (candidate, stored feature) pair yields a distance record
            cfg.vis.metric = VisMetric::Euclid(10.0);
            cfg.vis.min_track_len = cfg.vis.min_track_len.min(4);
            cfg.vis.q_collect = 0.0;
            cfg.vis.q_use = 0.0;
            cfg.vis.own_use = 0.0;
            cfg.vis.own_collect = 0.0;
            cfg.vis.min_area = 0.0;
            cfg.max_idle = 3;
            rep.count("histories_with_long_galleries(16 objects x 285 features)");
        }
        let multi = kind.is_batch() && !cli.small && !long_gallery && !wide && rng.chance(0.4);
        let w = WorldOpts {
            scenes: if long_gallery { 1 } else if multi { 2 + rng.usize(3) } else { 1 + rng.usize(2) },
            same_region: rng.chance(0.3),
            preset: if wide || long_gallery { "random" } else if kind.is_visual() && rng.chance(0.3) { "pack" } else { *rng.pick(&["crowd", "convoy", "crossing", "random", "lookalikes", "pack"]) },
            rotated: rng.chance(0.2),
            features: kind.is_visual(),
            feat_dim: 4,
            duplicates: false,
            // about every 7th history has wide frames (36..45 objects): shards x detections exceeds a few hundred partial results
            nobj: if long_gallery { 14 + rng.usize(3) } else if wide { 36 + rng.usize(10) } else if lifecycle { 4 + rng.usize(9) } else { 2 + rng.usize(6) },
            steps: if long_gallery { 1200 } else { 40 },
            low_quality: false,
            avoid_coincident: kind.is_visual() && (cfg.vis.own_use + cfg.vis.own_collect > 0.0),
            low_conf,
            vary_nobj: false,
        };
        let h = HistOpts { len: if cli.small { 3 } else if long_gallery { 600 } else if wide { 6 } else { 20 + rng.usize(31) }, lifecycle_ops: lifecycle, clear_wasted: false, auto_waste_ops: false, batches: false, empty_calls: true };
        let ops = if long_gallery { long_gallery_ops(&mut rng, 16, 285) } else { gen_history(&mut rng, &w, &h) };
        rep.count(&format!("histories/preset/{}/{}", w.preset, if kind.is_visual() { "visual" } else { "positional" }));
        // batch kinds, 40% of the histories: consecutive calls for different scenes travel in one multi-scene batch
        let groups: Option<Vec<usize>> = if multi {
            let mut g = vec![usize::MAX; ops.len()];
            let (mut cur, mut scenes_in): (usize, Vec<u64>) = (0, vec![]);
            for (i, op) in ops.iter().enumerate() {
                match op {
                    Op::Predict { scene, dets } if !dets.is_empty() && !scenes_in.contains(scene) && scenes_in.len() < 4 => {
                        scenes_in.push(*scene);
                        g[i] = cur;
                    }
                    Op::Predict { scene, dets } if !dets.is_empty() => {
                        cur += 1;
                        scenes_in = vec![*scene];
                        g[i] = cur;
                    }
                    _ => {
                        cur += 1;
                        scenes_in.clear();
                    }
                }
            }
            rep.count("histories_with_multi_scene_batches");
            Some(g)
        } else {
            None
        };
        let npredict = ops.iter().filter(|o| matches!(o, Op::Predict { .. })).count();
        rep.eval();
        rep.count(&format!("histories/{:?}", kind));
        let base = match run(&cfg, &ops, groups.as_deref(), &Plan::Free, false, None, &mut rep, if long_gallery { ops.len() as i64 } else { -2 }, wd.as_deref()) {
            Some(b) => b,
            None => {
                rep.violation(&format!("C05/{:?}/result-never-delivered", kind), idx, json!({"cfg": cfg.js(), "run": "reference"}));
                continue;
            }
        };
        if long_gallery {
            // distance records one candidate gets back from the single shard of the reference run
            rep.max("max_distance_records_per_candidate_and_shard(long galleries)", base.final_gallery_entries as f64);
        }
        let shard_counts: Vec<usize> = if cli.small { vec![3] } else if long_gallery { vec![*rng.pick(&[2usize, 3, 4, 8])] } else { (2..=8).collect() };
        'variants: for shards in shard_counts {
            let mut c2 = cfg.clone();
            c2.shards = shards;
            // (plan, pipelined)
            let mut plans: Vec<(Plan, bool)> = vec![(Plan::Free, false), (Plan::Delay(rng.u64()), false)];
            if long_gallery {
                plans.truncate(1);
            } else if !cli.small {
                plans.push((Plan::WorkerLast(rng.below(shards as u64)), false));
                if kind.is_batch() {
                    plans.push((Plan::Delay(rng.u64()), true));
                    plans.push((Plan::Free, true));
                }
                if cli.thorough() {
                    plans.push((Plan::WorkerFirst(rng.below(shards as u64)), false));
                    plans.push((Plan::Delay(rng.u64()), false));
                    plans.push((Plan::WorkerLast(rng.below(shards as u64)), false));
                }
            } else {
                plans.truncate(1);
            }
            for (plan, pipelined) in plans {
                let out = match run(&c2, &ops, groups.as_deref(), &plan, pipelined, ctl.as_deref(), &mut rep, -1, wd.as_deref()) {
                    Some(o) => o,
                    None => {
                        rep.violation(&format!("C05/{:?}/result-never-delivered", kind), idx, json!({"cfg": cfg.js(), "shards": shards, "plan": format!("{:?}", plan), "pipelined": pipelined}));
                        continue 'variants;
                    }
                };
                rep.count("variant_runs");
                if pipelined {
                    rep.count("variant_runs_pipelined");
                }
                // map: reference id -> variant id, rev: variant id -> reference id
                let mut map: HashMap<u64, u64> = HashMap::new();
                let mut rev: HashMap<u64, u64> = HashMap::new();
                for k in 0..ops.len() {
                    let ctx = |a: Value, b: Value| json!({"cfg": cfg.js(), "shards": shards, "plan": format!("{:?}", plan), "pipelined": pipelined, "op_index": k, "op": format!("{:?}", ops[k]).chars().take(160).collect::<String>(), "reference(1 shard)": a, "variant": b});
                    if let (Some(x), Some(y)) = (base.totals[k], out.totals[k]) {
                        if x != y {
                            rep.violation(&format!("C05/{:?}/tracks-held-differs", kind), idx, ctx(json!(x), json!(y)));
                            continue 'variants;
                        }
                    }
                    match (&base.obs[k], &out.obs[k]) {
                        (Obs::Recs(a), Obs::Recs(b)) => {
                            rep.count("calls_compared");
                            let equal = if kind.is_batch() {
                                same_grouping(a, b, &map, &rev) && bijection_check(a, b, &mut map, &mut rev).is_none()
                            } else {
                                let e = a == b;
                                if e {
                                    let _ = bijection_check(a, b, &mut map, &mut rev);
                                }
                                e
                            };
                            if equal {
                                continue;
                            }
                            let c = ctx(json!(a.iter().map(|r| r.js()).collect::<Vec<_>>()), json!(b.iter().map(|r| r.js()).collect::<Vec<_>>()));
                            if same_grouping(a, b, &map, &rev) {
                                rep.violation(&format!("C05/{:?}/records-differ-with-equal-grouping", kind), idx, c);
                            } else if let Op::Predict { scene, dets } = &ops[k] {
                                // explain: is the variant's outcome a valid optimal association from the reference's
                                // (quiescent) pre-state? A correct pipelined run acts on exactly that state as well.
                                let bt = translate(b, &rev);
                                // (long-gallery histories keep no per-call snapshots: the reference is replayed up to this call)
                                let replay = if long_gallery { run(&cfg, &ops[..=k], None, &Plan::Free, false, None, &mut rep, k as i64, wd.as_deref()) } else { None };
                                let pre_k: &Vec<LiveTrack> = match &replay {
                                    Some(r) => &r.pres[k],
                                    None => &base.pres[k],
                                };
                                let ja = judge_call(&cfg, *scene, base.epochs[k], dets, a, pre_k);
                                let jb = judge_call(&cfg, *scene, base.epochs[k], dets, &bt, pre_k);
                                match (ja, jb) {
                                    (Judgement::Valid, Judgement::Valid) => {
                                        rep.count("tie_divergences");
                                        rep.count("tie_divergences/both-outcomes-valid");
                                    }
                                    (Judgement::Invalid(sig, d), _) => rep.violation(&format!("C05/{:?}/grouping-differs/reference-run-invalid/{}", kind, sig), idx, json!({"ctx": c, "detail": d})),
                                    (_, Judgement::Invalid(sig, d)) => rep.violation(&format!("C05/{:?}/grouping-differs/variant-outcome-invalid/{}", kind, sig), idx, json!({"ctx": c, "detail": d})),
                                    (Judgement::Undecidable(w), _) | (_, Judgement::Undecidable(w)) => {
                                        rep.count("tie_divergences");
                                        rep.count(&format!("tie_divergences/undecidable:{}", w));
                                    }
                                }
                            }
                            continue 'variants;
                        }
                        (Obs::Wasted(a), Obs::Wasted(b)) => {
                            rep.count("wasted_calls_compared");
                            rep.add("wasted_tracks_compared", a.len() as u64);
                            let mut bt: Vec<WastedRec> = b.iter().map(|t| {
                                let mut t = t.clone();
                                if kind.is_batch() {
                                    t.id = rev.get(&t.id).cloned().unwrap_or((1u64 << 62) | t.id);
                                }
                                t
                            }).collect();
                            bt.sort_by_key(|t| t.id);
                            if *a != bt {
                                let ids = |v: &[WastedRec]| json!(v.iter().map(|t| json!([t.id, t.length, t.epoch])).collect::<Vec<_>>());
                                rep.violation(&format!("C05/{:?}/wasted-differs", kind), idx, ctx(ids(a), ids(&bt)));
                                continue 'variants;
                            }
                        }
                        (Obs::Idle(a), Obs::Idle(b)) => {
                            rep.count("idle_calls_compared");
                            let mut bt = if kind.is_batch() { translate(b, &rev) } else { b.clone() };
                            bt.sort_by_key(|t| t.id);
                            if *a != bt {
                                rep.violation(&format!("C05/{:?}/idle-differs", kind), idx, ctx(json!(a.iter().map(|r| r.id).collect::<Vec<_>>()), json!(bt.iter().map(|r| r.id).collect::<Vec<_>>())));
                                continue 'variants;
                            }
                        }
                        (x, y) => {
                            if x != y {
                                rep.violation(&format!("C05/{:?}/epoch-differs", kind), idx, ctx(json!(format!("{:?}", x)), json!(format!("{:?}", y))));
                                continue 'variants;
                            }
                        }
                    }
                }
                if ops.iter().any(|o| matches!(o, Op::Predict { dets, .. } if dets.len() >= 2)) {
                    let mut hh = Hasher::new();
                    hh.u64(idx).u64(shards as u64).str(&format!("{:?}{}", plan, pipelined));
                    rep.nontrivial(hh.get());
                }
            }
        }
        if rep.want_sample() {
            let first = ops.iter().find_map(|o| if let Op::Predict { dets, .. } = o { Some(dets.iter().map(|d| d.js()).collect::<Vec<_>>()) } else { None });
            rep.sample(json!({"cfg": cfg.js(), "operations": ops.len(), "predict_calls": npredict, "first_call": first,
                "reference_ids_first_calls": base.obs.iter().filter_map(|o| if let Obs::Recs(r) = o { Some(r.iter().map(|x| x.id).collect::<Vec<_>>()) } else { None }).take(3).collect::<Vec<_>>()}));
        }
    }
    rep.finish();
}
