//! C02 — positional association is gated and a maximum-weight one-to-one assignment.
use similari::track::ObservationMetricOk;
use similari::trackers::sort::voting::SortVoting;
use similari::utils::bbox::Universal2DBox;
use similari::voting::Voting;
use std::collections::{HashMap, HashSet};
use vh::posref::{check_positional, Verdict};
use vh::rng::Hasher;
use vh::trk::*;
use vh::votingref::{check_sort, Elt};
use vh::{json, Cli, Report, Rng};

fn run_engine(stream: &[Elt], thr: f32, nq: usize, nt: usize) -> HashMap<u64, Vec<u64>> {
    let v: Vec<ObservationMetricOk<Universal2DBox>> = stream.iter().map(|e| ObservationMetricOk::new(e.q, e.t, e.w, e.d)).collect();
    SortVoting::new(thr, nq, nt).winners(v)
}

fn layer_a(cli: &Cli, rep: &mut Report) {
    // exhaustive: <= 3 queries x <= 3 tracks over a 5-value grid straddling the threshold (incl. absent pairs)
    let thr = 0.3f32;
    let grid: [Option<f32>; 5] = [None, Some(0.25), Some(0.3), Some(0.35), Some(0.6)];
    let mut counter: u64 = 0;
    let mut rng = Rng::for_case(cli.seed, cli.shard, u64::MAX);
    for nq in 1..=3usize {
        for nt in 1..=3usize {
            let cells = nq * nt;
            let total = 5u64.pow(cells as u32);
            for code in 0..total {
                counter += 1;
                if counter % cli.nshards != cli.shard {
                    continue;
                }
                let idx = (1u64 << 48) | counter;
                if let Some(r) = cli.replay_index {
                    if r != idx {
                        continue;
                    }
                }
                let mut c = code;
                let mut stream = vec![];
                for q in 0..nq {
                    for t in 0..nt {
                        let g = grid[(c % 5) as usize];
                        c /= 5;
                        if let Some(w) = g {
                            stream.push(Elt { q: 1 + q as u64, t: 101 + t as u64, w: Some(w), d: None });
                        }
                    }
                }
                if stream.is_empty() {
                    continue;
                }
                rng.shuffle(&mut stream);
                rep.eval();
                rep.count("layerA_exhaustive_matrices");
                let qs: HashSet<u64> = stream.iter().map(|e| e.q).collect();
                let win = run_engine(&stream, thr, qs.len(), nt);
                let chk = check_sort(&stream, thr, &win);
                if let Some(e) = chk.error {
                    rep.violation("C02/engine/exhaustive", idx, json!({"stream[q,t,w]": stream.iter().map(|e| json!([e.q, e.t, e.w])).collect::<Vec<_>>(), "threshold": thr, "error": e, "result": win.iter().collect::<std::collections::BTreeMap<_, _>>()}));
                }
                if chk.greedy < chk.objective_opt {
                    rep.count("layerA_greedy_suboptimal");
                    let mut h = Hasher::new();
                    h.u64(nq as u64).u64(nt as u64).u64(code);
                    rep.nontrivial(h.get());
                }
            }
        }
    }
    rep.note("layerA_exhaustive", json!("every weight matrix with <= 3 detections x <= 3 tracks over the grid {absent, 0.25, 0.30 (= threshold), 0.35, 0.60}, stream order shuffled: 5^1+..+5^9 matrices, partitioned over the processes"));
    // random up to 8x8 with planted greedy traps
    let n = cli.cases(4_000, 200_000);
    for k in cli.index_range(n) {
        if k >> 48 != 0 {
            continue;
        }
        let idx = (2u64 << 48) | k;
        let mut rng = Rng::for_case(cli.seed, cli.shard, idx);
        let nq = 1 + rng.usize(8);
        let nt = 1 + rng.usize(8);
        let thr = *rng.pick(&[0.1f32, 0.3, 0.5, 1.0]);
        let mut stream = vec![];
        for q in 0..nq {
            for t in 0..nt {
                if rng.chance(0.7) {
                    let w = if rng.chance(0.3) {
                        // greedy trap: q's best is t, but t is much more valuable to q+1
                        if t == q % nt { 0.9 } else if t == (q + 1) % nt { 0.85 } else { 0.2 }
                    } else {
                        rng.uniform(0.0, 1.0) as f32
                    };
                    stream.push(Elt { q: 1 + q as u64, t: 101 + t as u64, w: Some(if thr >= 1.0 { w * 100.0 } else { w }), d: None });
                }
            }
        }
        if stream.is_empty() {
            continue;
        }
        rng.shuffle(&mut stream);
        rep.eval();
        rep.count("layerA_random_matrices");
        let qs: HashSet<u64> = stream.iter().map(|e| e.q).collect();
        let ts: HashSet<u64> = stream.iter().map(|e| e.t).collect();
        let win = run_engine(&stream, thr, qs.len(), ts.len() + rng.usize(3));
        let chk = check_sort(&stream, thr, &win);
        if let Some(e) = chk.error {
            rep.violation("C02/engine/random", idx, json!({"stream[q,t,w]": stream.iter().map(|e| json!([e.q, e.t, e.w])).collect::<Vec<_>>(), "threshold": thr, "error": e}));
        }
        if chk.greedy < chk.objective_opt {
            rep.count("layerA_greedy_suboptimal");
            let mut h = Hasher::new();
            for e in &stream {
                h.u64(e.q).u64(e.t).f32(e.w.unwrap());
            }
            rep.nontrivial(h.get());
        }
    }
}

fn layer_b(cli: &Cli, rep: &mut Report) {
    let ctl = if cli.small { None } else { Some(vh::sched::Controller::install()) };
    let n = cli.cases(1440, 8_000);
    for k in cli.index_range(n) {
        if k >> 48 != 0 {
            continue;
        }
        let idx = k;
        let mut rng = Rng::for_case(cli.seed, cli.shard, idx);
        let kind = if idx % 5 == 4 { Kind::BatchSort } else { Kind::Sort };
        let mut cfg = gen_cfg(&mut rng, kind);
        cfg.max_idle = rng.usize(4);
        if rng.chance(0.2) {
            cfg.wp *= *rng.pick(&[0.5f32, 2.0]);
        }
        let w = WorldOpts {
            scenes: 1 + rng.usize(2),
            same_region: rng.chance(0.5),
            preset: *rng.pick(&["crossing", "convoy", "crowd", "convoy", "crowd", "random", "stop-and-go", "teleport", "pack"]),
            rotated: rng.chance(0.25),
            features: false,
            feat_dim: 1,
            duplicates: false,
            nobj: 2 + rng.usize(7),
            steps: 40,
            low_quality: false,
            avoid_coincident: false,
            low_conf: rng.chance(0.15),
            vary_nobj: false,
        };
        let h = HistOpts { len: if cli.small { 6 } else { 30 + rng.usize(50) }, lifecycle_ops: false, clear_wasted: false, auto_waste_ops: false, batches: false, empty_calls: false };
        let ops = gen_history(&mut rng, &w, &h);
        let mut trk = AnyTracker::new(&cfg);
        rep.eval();
        rep.count("layerB_histories");
        // (scene, detections, records, pre-call snapshot, epoch) of every judged call, for the pipelined re-run below
        let mut seq_log: Vec<(u64, Vec<Det>, Vec<Rec>, Vec<LiveTrack>, usize)> = vec![];
        let mut seq_ok = true;
        for (ci, op) in ops.iter().enumerate() {
            let (scene, dets) = match op {
                Op::Predict { scene, dets } => (*scene, dets),
                _ => continue,
            };
            let pre = trk.live();
            let epoch = trk.epoch(scene) + 1;
            let recs = trk.predict(scene, dets);
            if recs.len() != dets.len() {
                rep.violation("C02/tracker/record-count", idx, json!({"call": ci}));
                seq_ok = false;
                break;
            }
            if kind == Kind::BatchSort && !dets.is_empty() {
                seq_log.push((scene, dets.clone(), recs.clone(), pre.clone(), epoch));
            }
            let pre_ids: HashSet<u64> = pre.iter().map(|t| t.id).collect();
            let assigned: Vec<Option<u64>> = recs.iter().map(|r| if pre_ids.contains(&r.id) { Some(r.id) } else { None }).collect();
            let cont: HashSet<u64> = assigned.iter().flatten().cloned().collect();
            // expired tracks cannot take part (unless the tracker continued one - then the checker must see it)
            let cands: Vec<&LiveTrack> = pre.iter().filter(|t| t.scene == scene && (epoch <= t.last_epoch + cfg.max_idle || cont.contains(&t.id))).collect();
            // a continuation of a track of another scene is judged by C04/C01; here it is outside the candidate set
            let boxes: Vec<DBox> = dets.iter().map(|d| d.b).collect();
            rep.count("layerB_calls");
            match check_positional(&cfg, scene, epoch, &boxes, &assigned, &cands) {
                Verdict::Ok { nontrivial, pairs_gated, .. } => {
                    rep.count("layerB_calls_decided");
                    rep.add("layerB_gated_pairs", pairs_gated as u64);
                    if nontrivial {
                        rep.count("layerB_calls_where_greedy_is_suboptimal");
                        let mut hh = Hasher::new();
                        hh.u64(idx).u64(ci as u64);
                        for b in &boxes {
                            b.hash(&mut hh);
                        }
                        rep.nontrivial(hh.get());
                        if rep.want_sample() {
                            rep.sample(json!({"cfg": cfg.js(), "scene": scene, "epoch": epoch, "dets": boxes.iter().map(|b| b.js()).collect::<Vec<_>>(), "tracks_before": cands.iter().map(|t| json!({"id": t.id, "last_box": t.est.js(), "last_epoch": t.last_epoch})).collect::<Vec<_>>(), "records[id]": recs.iter().map(|r| r.id).collect::<Vec<_>>()}));
                        }
                    }
                }
                Verdict::Undecidable(why) => rep.count(&format!("layerB_calls_undecidable/{}", why)),
                Verdict::Skipped(why) => rep.count(&format!("layerB_calls_skipped/{}", why)),
                Verdict::Violation(sig, d) => {
                    rep.violation(&format!("C02/tracker/{:?}/{}", kind, sig), idx, json!({"cfg": cfg.js(), "preset": w.preset, "call": ci, "scene": scene, "epoch": epoch, "detail": d}));
                    seq_ok = false;
                    break;
                }
            }
        }
        drop(trk);
        // BatchSort, second pass: the same calls submitted back to back as one-scene batches whose results are read by
        // consumer threads (the pipelined use the batch API allows); see posref::pipelined_pass
        if kind == Kind::BatchSort && seq_ok && !cli.small && seq_log.len() >= 2 {
            if let Some((sig, d)) = vh::posref::pipelined_pass(&cfg, &seq_log, ctl.as_deref(), &mut rng, rep, "layerB_") {
                rep.violation(&format!("C02/tracker/BatchSort/pipelined/{}", sig), idx, json!({"cfg": cfg.js(), "preset": w.preset, "detail": d}));
            }
        }
    }
}

fn main() {
    let cli = Cli::parse();
    let mut rep = Report::new("C02", &cli);
    rep.note("rule", json!("Layer A (engine): SortVoting::winners on weight matrices - exhaustively all matrices with <= 3 detections x <= 3 tracks over a 5-value grid straddling the threshold (absent pairs included), and random matrices up to 8 x 8 with planted greedy traps, stream order shuffled; the returned assignment must cover every query of the stream, be one-to-one, use only present pairs, and reach the optimum of an exact subset-DP in the engine's own integer scale (ties are therefore irrelevant). Layer B (tracker): before every Sort / BatchSort predict call the live tracks are snapshotted (last estimated box, last update epoch, raw Kalman state through the guarded accessor); gates and weights are recomputed in f64 (IoU x max(conf, min_conf) >= threshold; chi-square(5) gate on the squared Mahalanobis distance + bounding-circle reach; idle limit; scene) and the observed continuations must be clearly admissible pairs forming an assignment whose objective is within tolerance of the exact optimum; calls with a pair inside a 1e-4 gate band are counted as undecidable. BatchSort histories are run a second time pipelined (one-scene batches submitted back to back, results read by consumer threads); every pipelined outcome is judged against the sequential run's pre-call snapshot. Non-trivial: greedy (row-wise best-first) is strictly worse than the optimum; distinct by matrix / call hash."));
    rep.note("assumptions", json!(["'>' versus '>=' at exact equality of a computed weight with the threshold is not judged (both outcomes have the same objective)", "the exact optimum is computed per connected component of the gated pairs; calls in which a component has more than 16 tracks are skipped (counted)"]));
    if !cli.small {
        layer_a(&cli, &mut rep);
    }
    layer_b(&cli, &mut rep);
    rep.finish();
}
