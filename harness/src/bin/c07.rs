//! C07 — Kalman filters equal the textbook filter, stay SPD, gate consistently.
use nalgebra::Point2;
use similari::utils::bbox::Universal2DBox;
use similari::utils::kalman::kalman_2d_box::Universal2DBoxKalmanFilter;
use similari::utils::kalman::kalman_2d_point::Point2DKalmanFilter;
use similari::utils::kalman::kalman_2d_point_vec::Vec2DKalmanFilter;
use similari::utils::kalman::{CHI2INV95, CHI2_UPPER_BOUND};
use vh::linalg::Mat;
use vh::rng::Hasher;
use vh::{json, Cli, Report, Rng};

fn ulp32(x: f64) -> f64 {
    let x = (x.abs() as f32).max(f32::MIN_POSITIVE);
    (f32::from_bits(x.to_bits() + 1) as f64) - (x as f64)
}

/// textbook linear KF in f64, full matrices
struct RefKf {
    n: usize, // measurement dim
    f: Mat,
    h: Mat,
    x: Mat,
    p: Mat,
}
impl RefKf {
    fn new(n: usize) -> RefKf {
        let mut f = Mat::eye(2 * n);
        for i in 0..n {
            f.set(i, n + i, 1.0);
        }
        let mut h = Mat::zeros(n, 2 * n);
        for i in 0..n {
            h.set(i, i, 1.0);
        }
        RefKf { n, f, h, x: Mat::zeros(2 * n, 1), p: Mat::zeros(2 * n, 2 * n) }
    }
    fn init(&mut self, z: &[f64], std: &[f64]) {
        let mut x = z.to_vec();
        x.extend(std::iter::repeat(0.0).take(self.n));
        self.x = Mat::col(&x);
        self.p = Mat::diag(&std.iter().map(|s| s * s).collect::<Vec<_>>());
    }
    fn predict(&mut self, qstd: &[f64]) {
        let q = Mat::diag(&qstd.iter().map(|s| s * s).collect::<Vec<_>>());
        self.x = self.f.mul(&self.x);
        self.p = self.f.mul(&self.p).mul(&self.f.t()).add(&q);
    }
    fn s(&self, rstd: &[f64]) -> Mat {
        let r = Mat::diag(&rstd.iter().map(|s| s * s).collect::<Vec<_>>());
        self.h.mul(&self.p).mul(&self.h.t()).add(&r)
    }
    fn update(&mut self, z: &[f64], rstd: &[f64]) {
        let s = self.s(rstd);
        let k = self.p.mul(&self.h.t()).mul(&s.inv().expect("S invertible"));
        let y = Mat::col(z).sub(&self.h.mul(&self.x));
        self.x = self.x.add(&k.mul(&y));
        // Joseph-free textbook form P - K S K^T
        self.p = self.p.sub(&k.mul(&s).mul(&k.t()));
    }
    fn maha(x: &Mat, p: &Mat, h: &Mat, z: &[f64], rstd: &[f64]) -> f64 {
        let r = Mat::diag(&rstd.iter().map(|s| s * s).collect::<Vec<_>>());
        let s = h.mul(p).mul(&h.t()).add(&r);
        let y = Mat::col(z).sub(&h.mul(x));
        y.t().mul(&s.inv().unwrap()).mul(&y).at(0, 0)
    }
}

fn ref_from(n: usize, mean: &[f32], cov: &[f32]) -> RefKf {
    let mut k = RefKf::new(n);
    k.x = Mat::col(&mean.iter().map(|v| *v as f64).collect::<Vec<_>>());
    k.p = Mat::from_rows(2 * n, 2 * n, &cov.iter().map(|v| *v as f64).collect::<Vec<_>>());
    k
}

struct Tol {
    /// false = informational only (maxima are recorded, nothing is reported)
    verdict: bool,
    mean_sigma: f64,
    mean_ulps: f64,
    cov_rel: f64,
    dist_rel: f64,
}
// free-running lock-step reference: only a gross-drift sanity check (f32 error accumulates with the P/R conditioning)
const TOL: Tol = Tol { verdict: false, mean_sigma: 5e-2, mean_ulps: 2000.0, cov_rel: 0.2, dist_rel: 2e-3 };
// one-step differential (reference restarted from the library's own previous state): tight
const STEP: Tol = Tol { verdict: true, mean_sigma: 1e-3, mean_ulps: 32.0, cov_rel: 5e-6, dist_rel: 2e-3 };

fn box_stds(wp: f64, wv: f64, h: f64) -> (Vec<f64>, Vec<f64>, Vec<f64>) {
    let init = vec![2.0 * wp * h, 2.0 * wp * h, 2.0 * wp * h, 1e-2, 2.0 * wp * h, 10.0 * wv * h, 10.0 * wv * h, 10.0 * wv * h, 1e-5, 10.0 * wv * h];
    let q = vec![wp * h, wp * h, wp * h, 1e-2, wp * h, wv * h, wv * h, wv * h, 1e-5, wv * h];
    let r = vec![wp * h, wp * h, wp * h, 1e-1, wp * h];
    (init, q, r)
}

fn compare_state(rep: &mut Report, tol_: &Tol, tag: &str, idx: u64, step: usize, what: &str, mean: &[f32], cov: &[f32], kf: &RefKf, prev_cov: Option<&[f32]>, innov: f64, ctx: &vh::Value) -> bool {
    let n2 = mean.len();
    let mut ok = true;
    let lib_p = Mat::from_rows(n2, n2, &cov.iter().map(|v| *v as f64).collect::<Vec<_>>());
    for i in 0..n2 {
        let r = kf.x.at(i, 0);
        let sigma = match prev_cov {
            Some(pc) => kf.p.at(i, i).max(pc[i * n2 + i] as f64).max(0.0).sqrt(),
            None => kf.p.at(i, i).max(0.0).sqrt(),
        };
        let scale_ulps = ulp32(r.abs().max(if i >= n2 / 2 { kf.x.at(i - n2 / 2, 0).abs() } else { 0.0 }));
        // the gain is computed in f32 from an ill-conditioned quotient: its relative error (~1e-5) multiplies the innovation
        let tol = tol_.mean_sigma * sigma + tol_.mean_ulps * scale_ulps + 4e-5 * innov;
        let err = (mean[i] as f64 - r).abs();
        rep.max(&format!("{}_mean_err_over_tol", tag), err / tol);
        if !(err <= tol) && tol_.verdict {
            rep.violation(&format!("C07/{}/mean", tag), idx, json!({"ctx": ctx, "step": step, "after": what, "component": i, "lib": mean[i], "reference": r, "tol": tol}));
            ok = false;
            break;
        }
    }
    // scale of entry (a,b): sqrt of the larger of the previous and the new variances (the update subtracts
    // nearly equal quantities when P >> R, so rounding is relative to the *previous* covariance)
    let dscale = |a: usize| -> f64 {
        let cur = kf.p.at(a, a).abs();
        match prev_cov {
            Some(pc) => cur.max(pc[a * n2 + a].abs() as f64),
            None => cur,
        }
    };
    let asym = lib_p.asym_scaled();
    rep.max(&format!("{}_cov_asymmetry_scaled", tag), asym);
    // The asymmetric part is propagated exactly by the one-step reference (which starts from the library's own,
    // possibly slightly asymmetric, covariance) and is therefore already judged entry by entry above/below; rounding
    // injects eps32 * P_prev/P_new of new asymmetry per badly conditioned update (observed up to ~2e-2 with small
    // position / large velocity weights). Only gross asymmetry is reported here.
    // informational only: in units of sqrt(P_aa P_bb) the asymmetry of a strongly correlated (pos, vel) block is
    // amplified by every update (sqrt(v/v')), so no fixed bound on this number is a sound verdict; symmetry is
    // decided entry by entry by the one-step comparison above/below and by the PD check on the symmetric part.
    let _ = asym;
    match lib_p.scaled_min_eig() {
        None => {
            rep.violation(&format!("C07/{}/cov-nonpositive-diagonal", tag), idx, json!({"ctx": ctx, "step": step, "after": what, "cov": cov}));
            ok = false;
        }
        Some(e) => {
            rep.max(&format!("{}_neg_min_scaled_eig", tag), -e);
            if e < 1e-4 {
                // scaled eigenvalues of a healthy filter are O(0.01..1); <= 1e-4 means (numerically) singular / indefinite
                rep.violation(&format!("C07/{}/cov-not-PD", tag), idx, json!({"ctx": ctx, "step": step, "after": what, "min_scaled_eigenvalue": e}));
                ok = false;
            }
        }
    }
    let n = n2 / 2;
    for i in 0..n {
        let idxs = [i, n + i];
        let mut worst: f64 = 0.0;
        for a in idxs {
            for b in idxs {
                let sc = (dscale(a) * dscale(b)).sqrt().max(1e-300);
                worst = worst.max((lib_p.at(a, b) - kf.p.at(a, b)).abs() / sc);
            }
        }
        rep.max(&format!("{}_cov_err_over_tol", tag), worst / tol_.cov_rel);
        if worst > tol_.cov_rel && tol_.verdict {
            rep.violation(&format!("C07/{}/cov", tag), idx, json!({"ctx": ctx, "step": step, "after": what, "block": i, "scaled_err": worst,
                "lib_block": [lib_p.at(i, i), lib_p.at(i, n + i), lib_p.at(n + i, i), lib_p.at(n + i, n + i)], "ref_block": [kf.p.at(i, i), kf.p.at(i, n + i), kf.p.at(n + i, i), kf.p.at(n + i, n + i)]}));
            ok = false;
            break;
        }
    }
    // cross-block entries must be (numerically) zero relative to the diagonal
    for a in 0..n2 {
        for b in 0..n2 {
            if a % n != b % n {
                let v = lib_p.at(a, b).abs();
                let s = (lib_p.at(a, a) * lib_p.at(b, b)).abs().sqrt();
                if v > 1e-4 * s.max(1e-30) {
                    rep.violation(&format!("C07/{}/cov-cross-coupling", tag), idx, json!({"ctx": ctx, "step": step, "a": a, "b": b, "value": v}));
                    return false;
                }
            }
        }
    }
    ok
}

/// The trackers run this filter with the weights they were configured with: a single well separated object is fed to
/// Sort / BatchSort / VisualSort instances with random Kalman weights (many instances with different weights live in one
/// process) and the estimated box of every record is compared with the free-running f64 reference for those weights.
/// distance() of a probe point from the given state against the f64 squared Mahalanobis distance of that very state
fn probe_point_distance(rep: &mut Report, pf: &Point2DKalmanFilter, st: &similari::utils::kalman::KalmanState<4>, probe: &Point2<f32>, wp: f64, idx: u64, k: usize, what: &str, ctx: &vh::Value) -> bool {
    let (m, c) = st.verif_raw();
    let lm = Mat::col(&m.iter().map(|v| *v as f64).collect::<Vec<_>>());
    let lp = Mat::from_rows(4, 4, &c.iter().map(|v| *v as f64).collect::<Vec<_>>());
    let h = RefKf::new(2).h;
    let dref = RefKf::maha(&lm, &lp, &h, &[probe.x as f64, probe.y as f64], &[wp, wp]);
    let dl = pf.distance(st, probe) as f64;
    rep.count("standstill_probe_distances_compared");
    rep.max("point_distance_rel_err", (dl - dref).abs() / dref.max(1e-6));
    if (dl - dref).abs() > TOL.dist_rel * dref + 1e-5 {
        rep.violation("C07/point/distance/standstill-probe", idx, json!({"ctx": ctx, "step": k, "what": what, "lib": dl, "reference": dref, "mean": m}));
        return false;
    }
    true
}

/// The vector filter on a long point vector (256..3000 points, all different, different ages): every element of predict /
/// update / distance must be bit-equal to the scalar point filter run on that element alone, in input order.
fn wide_vector(rep: &mut Report, rng: &mut Rng, idx: u64, wp32: f32, wv32: f32) {
    let n = *rng.pick(&[256usize, 257, 300, 1024, 1025, 2000, 3000]);
    let pf = Point2DKalmanFilter::new(wp32, wv32);
    let vf = Vec2DKalmanFilter::new(wp32, wv32);
    let mut pts: Vec<Point2<f32>> = (0..n).map(|i| Point2::from([(i as f32) * 1.5 + rng.uniform(0.0, 1.0) as f32, 1000.0 - (i as f32) * 0.75 + rng.uniform(0.0, 0.5) as f32])).collect();
    let mut vst = vf.initiate(&pts);
    let mut sst: Vec<_> = pts.iter().map(|p| pf.initiate(p)).collect();
    let rounds = 2 + rng.usize(3);
    for round in 0..rounds {
        vst = vf.predict(&vst);
        sst = sst.iter().map(|s| pf.predict(s)).collect();
        for (i, p) in pts.iter_mut().enumerate() {
            *p = Point2::from([p.x + 0.3 + (i % 7) as f32 * 0.01, p.y - 0.2 - (i % 5) as f32 * 0.02]);
        }
        let dv = vf.distance(&vst, &pts);
        let ds: Vec<f32> = sst.iter().zip(pts.iter()).map(|(s, p)| pf.distance(s, p)).collect();
        let bad = if dv.len() != ds.len() { Some(0) } else { dv.iter().zip(ds.iter()).position(|(a, b)| a.to_bits() != b.to_bits()) };
        if let Some(i) = bad {
            rep.violation("C07/vec/wide/distance-differs-from-point-filter", idx, json!({"points": n, "round": round, "first_element": i, "vec_len": dv.len()}));
            return;
        }
        vst = vf.update(&vst, &pts);
        sst = sst.iter().zip(pts.iter()).map(|(s, p)| pf.update(s, p)).collect();
        let same = vst.len() == sst.len()
            && vst.iter().zip(sst.iter()).all(|(a, b)| {
                let ((am, ac), (bm, bc)) = (a.verif_raw(), b.verif_raw());
                am.iter().zip(bm.iter()).all(|(x, y)| x.to_bits() == y.to_bits()) && ac.iter().zip(bc.iter()).all(|(x, y)| x.to_bits() == y.to_bits())
            });
        if !same {
            rep.violation("C07/vec/wide/state-differs-from-point-filter", idx, json!({"points": n, "round": round, "vec_len": vst.len()}));
            return;
        }
        rep.add("wide_vector_points_compared", n as u64);
    }
    rep.count("wide_vectors");
}

fn tracker_section(cli: &Cli, rep: &mut Report) {
    use vh::trk::*;
    let n = cli.cases(400, 6000);
    for k in cli.index_range(n) {
        if k >> 40 != 0 {
            continue;
        }
        let idx = (7u64 << 40) | k;
        let mut rng = Rng::for_case(cli.seed, cli.shard, idx);
        let kind = *rng.pick(&[Kind::Sort, Kind::Sort, Kind::BatchSort, Kind::Visual]);
        let mut cfg = gen_cfg(&mut rng, kind);
        cfg.wp = ((1.0 / 20.0) * rng.log_uniform(0.3, 3.0)) as f32;
        cfg.wv = ((1.0 / 160.0) * rng.log_uniform(0.3, 3.0)) as f32;
        cfg.constraints = None;
        cfg.max_idle = 2;
        cfg.pos = PosMetric::IoU(0.1);
        let (wp, wv) = (cfg.wp as f64, cfg.wv as f64);
        let scene = *rng.pick(&[0u64, 0, 5]);
        let mut trk = AnyTracker::new(&cfg);
        let h0 = rng.log_uniform(10.0, 300.0);
        let (mut x, mut y) = (rng.uniform(0.0, 2000.0), rng.uniform(0.0, 2000.0));
        let (vx, vy) = (rng.uniform(-0.15, 0.15) * h0, rng.uniform(-0.15, 0.15) * h0);
        let angle = if rng.chance(0.3) { Some(rng.uniform(0.1, 3.0) as f32) } else { None };
        let asp = rng.uniform(0.5, 2.0) as f32;
        let mut kf = RefKf::new(5);
        let frames = 6 + rng.usize(20);
        let mut first_id = None;
        rep.count("tracker_histories");
        for f in 0..frames {
            x += vx;
            y += vy;
            let b = DBox { xc: x as f32, yc: y as f32, angle, aspect: asp, h: (h0 * rng.uniform(0.995, 1.005)) as f32, conf: 1.0 };
            let det = Det { b, custom: None, feature: None, quality: None, truth: 0 };
            let recs = trk.predict(scene, &[det]);
            if recs.len() != 1 {
                break;
            }
            let z = vec![b.xc as f64, b.yc as f64, b.angle.unwrap_or(0.0) as f64, b.aspect as f64, b.h as f64];
            if f == 0 {
                first_id = Some(recs[0].id);
                let (i0, _, _) = box_stds(wp, wv, z[4]);
                kf.init(&z, &i0);
            } else if Some(recs[0].id) != first_id || recs[0].length != f + 1 {
                // the object lost its track (not this section's business)
                rep.count("tracker_histories_cut_short(track not continued)");
                break;
            }
            let (_, q, _) = box_stds(wp, wv, kf.x.at(4, 0));
            kf.predict(&q);
            let (_, _, r) = box_stds(wp, wv, kf.x.at(4, 0));
            kf.update(&z, &r);
            let est = &recs[0].predicted;
            let lib = [est.xc as f64, est.yc as f64, est.angle.unwrap_or(0.0) as f64, est.aspect as f64, est.h as f64];
            for i in 0..5 {
                let want = kf.x.at(i, 0);
                let tol = 5e-3 * kf.p.at(i, i).max(0.0).sqrt() + 1e-4 * want.abs().max(1.0);
                rep.max("tracker_estimate_err_over_tol", (lib[i] - want).abs() / tol);
                if !((lib[i] - want).abs() <= tol) {
                    rep.violation(&format!("C07/tracker/{:?}/estimated-box-differs-from-filter-with-configured-weights", kind), idx, json!({"cfg": cfg.js(), "frame": f, "component": i, "tracker": lib[i], "reference": want, "tolerance": tol, "wp": wp, "wv": wv}));
                    return;
                }
            }
            rep.count("tracker_estimates_compared");
        }
    }
}

fn main() {
    let cli = Cli::parse();
    let mut rep = Report::new("C07", &cli);
    rep.note("rule", json!("case = trajectory of 50..600 steps (constant velocity / accelerating / jittering / stop-and-go, growing/shrinking, rotating; coordinates 1..1e4, heights 1..1e3, weights 0.5x..2x the defaults) with a random predict/update pattern (gaps of several predicts; a sixth of the trajectories contain one coasting episode of 60..320 predictions without update followed by a displaced re-appearance). A textbook f64 Kalman filter with full F,H,Q(h),R(h) and gain by full matrix inverse runs in lock-step on the same f32 inputs. After every step two comparisons: (a) one-step differential - the reference is restarted from the library's own previous state (read through the guarded accessor) and must reproduce the library's next state: mean within 1e-3 sigma + 32 ulp_f32, every covariance entry within 5e-6 of the (previous) variance scale; (b) a free-running lock-step reference is run alongside for information only (its deviation maxima are reported; f32 error accumulates with the P/R conditioning over predict-only gaps); the scaled asymmetry is reported for information (the asymmetric part is judged entry by entry by the one-step comparison), positive-definiteness (min eigenvalue of the diagonally scaled matrix > 1e-4), cross-block zeros; distance() vs f64 squared Mahalanobis distance of the library's own state (2e-3 relative); stationary target; vector filter == per-point filters bit for bit; calculate_cost: inverted == 100 - direct on a grid of 1e4 distances incl. both gates +-1ulp for the box and the point filter. A tracker section feeds one object to Sort / BatchSort / VisualSort instances with random Kalman weights and compares the estimated box of every record with the free-running reference for the configured weights. Non-trivial: every trajectory with >= 10 updates (distinct by input hash)."));
    rep.note("assumptions", json!(["noise model as documented in the source: std = w*h (xc,yc,angle,h), constants for aspect; point filter unscaled", "tolerances carry >=10x head-room over the largest deviation observed on the pinned tree (see observed_maxima *_over_tol)"]));
    let n = cli.cases(6000, 40_000);
    for idx in cli.index_range(n) {
        let mut rng = Rng::for_case(cli.seed, cli.shard, idx);
        rep.eval();
        let mut steps = 50 + rng.usize(if cli.small { 10 } else { 551 });
        // a sixth of the trajectories contain one long coasting episode: 60..320 consecutive predictions without any
        // update (an occluded / lost object), after which measurements resume - possibly well away from the prediction
        let coast: Option<(usize, usize)> = if !cli.small && rng.chance(1.0 / 6.0) {
            let s = 3 + rng.usize(40);
            let e = s + 60 + rng.usize(261);
            steps = steps.max(e + 15);
            Some((s, e))
        } else {
            None
        };
        let wp = (1.0 / 20.0) * rng.log_uniform(0.5, 2.0);
        let wv = (1.0 / 160.0) * rng.log_uniform(0.5, 2.0);
        let (wp32, wv32) = (wp as f32, wv as f32);
        let (wp, wv) = (wp32 as f64, wv32 as f64);
        let coord = rng.log_uniform(1.0, 1e4);
        let motion = rng.usize(5);
        let mut hcur = rng.log_uniform(1.0, 1e3);
        let speed = hcur * rng.uniform(0.0, 0.3);
        let dir = rng.uniform(0.0, 6.28);
        let (mut px, mut py) = (rng.uniform(-1.0, 1.0) * coord, rng.uniform(-1.0, 1.0) * coord);
        let (mut vx, mut vy) = (speed * dir.cos(), speed * dir.sin());
        let mut ang = if rng.chance(0.5) { rng.uniform(0.0, 3.0) } else { 0.0 };
        let dang = if ang != 0.0 { rng.uniform(-0.05, 0.05) } else { 0.0 };
        let mut asp = rng.uniform(0.3, 3.0);
        let grow = rng.uniform(0.99, 1.01);
        let upd_p = *rng.pick(&[1.0, 0.9, 0.6, 0.3]);
        let ctx = json!({"steps": steps, "wp": wp32, "wv": wv32, "coord": coord, "motion": motion, "h0": hcur, "update_probability": upd_p});
        let mut hh = Hasher::new();

        // ---- box filter
        let f = Universal2DBoxKalmanFilter::new(wp32, wv32);
        let mk = |px: f64, py: f64, ang: f64, asp: f64, h: f64| Universal2DBox::new(px as f32, py as f32, if ang == 0.0 { None } else { Some(ang as f32) }, asp as f32, h as f32);
        let z0 = mk(px, py, ang, asp, hcur);
        let zv = |b: &Universal2DBox| vec![b.xc as f64, b.yc as f64, b.angle.unwrap_or(0.0) as f64, b.aspect as f64, b.height as f64];
        let mut st = f.initiate(&z0);
        let mut kf = RefKf::new(5);
        let (i0, _, _) = box_stds(wp, wv, z0.height as f64);
        kf.init(&zv(&z0), &i0);
        let (m, c) = st.verif_raw();
        let mut good = compare_state(&mut rep, &TOL, "box", idx, 0, "initiate", &m, &c, &kf, None, 0.0, &ctx);
        let mut updates = 0;
        // point filter on the same trajectory
        let pf = Point2DKalmanFilter::new(wp32, wv32);
        let mut pst = pf.initiate(&Point2::from([z0.xc, z0.yc]));
        let mut pkf = RefKf::new(2);
        pkf.init(&[z0.xc as f64, z0.yc as f64], &[2.0 * wp, 2.0 * wp, 10.0 * wv, 10.0 * wv]);
        let vf = Vec2DKalmanFilter::new(wp32, wv32);
        let mut vst = vf.initiate(&[Point2::from([z0.xc, z0.yc]), Point2::from([z0.yc, z0.xc])]);
        let mut pst2 = pf.initiate(&Point2::from([z0.yc, z0.xc]));
        let mut pgood = true;
        for step in 1..=steps {
            if !good && !pgood {
                break;
            }
            // world
            match motion {
                1 => {
                    vx *= 1.01;
                    vy *= 1.01;
                }
                2 => {
                    vx += rng.normal() * 0.05 * hcur;
                    vy += rng.normal() * 0.05 * hcur;
                }
                3 => {
                    if step % 40 < 20 {
                        vx = 0.0;
                        vy = 0.0;
                    } else {
                        vx = speed * dir.cos();
                        vy = speed * dir.sin();
                    }
                }
                _ => {}
            }
            px += vx;
            py += vy;
            hcur = (hcur * grow).clamp(1.0, 1e3);
            ang += dang;
            asp = (asp * rng.uniform(0.995, 1.005)).clamp(0.2, 4.0);
            // predict
            if good {
                let hs = kf.x.at(4, 0);
                let (_, q, _) = box_stds(wp, wv, hs);
                kf.predict(&q);
                let (m0, c0) = st.verif_raw();
                let mut one = ref_from(5, &m0, &c0);
                let (_, q1, _) = box_stds(wp, wv, m0[4] as f64);
                one.predict(&q1);
                st = f.predict(&st);
                let (m, c) = st.verif_raw();
                good &= compare_state(&mut rep, &STEP, "box1", idx, step, "predict(one-step)", &m, &c, &one, Some(&c0), 0.0, &ctx);
                good = compare_state(&mut rep, &TOL, "box", idx, step, "predict", &m, &c, &kf, None, 0.0, &ctx);
                rep.count("box_steps_compared");
            }
            if pgood && step % 23 == 0 {
                // the vector's second point is re-initiated: from now on its covariance has a different age than the first
                let fresh = Point2::from([py as f32, px as f32]);
                pst2 = pf.initiate(&fresh);
                let fs = vf.initiate(&[fresh]);
                vst[1] = fs[0];
                rep.count("vector_filter_points_reinitiated");
            }
            if pgood {
                pkf.predict(&[wp, wp, wv, wv]);
                let (m0, c0) = pst.verif_raw();
                let mut one = ref_from(2, &m0, &c0);
                one.predict(&[wp, wp, wv, wv]);
                pst = pf.predict(&pst);
                {
                    let (m, c) = pst.verif_raw();
                    pgood &= compare_state(&mut rep, &STEP, "point1", idx, step, "predict(one-step)", &m, &c, &one, Some(&c0), 0.0, &ctx);
                }
                pst2 = pf.predict(&pst2);
                vst = vf.predict(&vst);
                let (m, c) = pst.verif_raw();
                pgood = compare_state(&mut rep, &TOL, "point", idx, step, "predict", &m, &c, &pkf, None, 0.0, &ctx);
                rep.count("point_steps_compared");
            }
            // a rotated track occasionally receives an axis-aligned measurement (angle None means angle 0)
            let zang = if ang != 0.0 && rng.chance(0.08) { 0.0 } else { ang };
            let z = mk(px + rng.normal() * 0.02 * hcur, py + rng.normal() * 0.02 * hcur, zang, asp, hcur * rng.uniform(0.99, 1.01));
            hh.f32(z.xc).f32(z.yc).f32(z.height);
            // distance of this measurement from the library's own current state
            if good {
                let (m, c) = st.verif_raw();
                let lm = Mat::col(&m.iter().map(|v| *v as f64).collect::<Vec<_>>());
                let lp = Mat::from_rows(10, 10, &c.iter().map(|v| *v as f64).collect::<Vec<_>>());
                let (_, _, r) = box_stds(wp, wv, m[4] as f64);
                let dref = RefKf::maha(&lm, &lp, &kf.h, &zv(&z), &r);
                let dl = f.distance(st, &z) as f64;
                rep.max("box_distance_rel_err", (dl - dref).abs() / dref.max(1e-6));
                if (dl - dref).abs() > TOL.dist_rel * dref + 1e-5 {
                    rep.violation("C07/box/distance", idx, json!({"ctx": ctx, "step": step, "lib": dl, "reference": dref}));
                    good = false;
                }
                rep.count("box_distances_compared");
            }
            if pgood {
                let (m, c) = pst.verif_raw();
                let lm = Mat::col(&m.iter().map(|v| *v as f64).collect::<Vec<_>>());
                let lp = Mat::from_rows(4, 4, &c.iter().map(|v| *v as f64).collect::<Vec<_>>());
                let p = Point2::from([z.xc, z.yc]);
                let dref = RefKf::maha(&lm, &lp, &pkf.h, &[z.xc as f64, z.yc as f64], &[wp, wp]);
                let dl = pf.distance(&pst, &p) as f64;
                rep.max("point_distance_rel_err", (dl - dref).abs() / dref.max(1e-6));
                if (dl - dref).abs() > TOL.dist_rel * dref + 1e-5 {
                    rep.violation("C07/point/distance", idx, json!({"ctx": ctx, "step": step, "lib": dl, "reference": dref}));
                    pgood = false;
                }
                let dv = vf.distance(&vst, &[p, Point2::from([z.yc, z.xc])]);
                let d2 = pf.distance(&pst2, &Point2::from([z.yc, z.xc]));
                if dv.len() != 2 || dv[0].to_bits() != (dl as f32).to_bits() || dv[1].to_bits() != d2.to_bits() {
                    rep.violation("C07/vec/distance-differs-from-point-filter", idx, json!({"ctx": ctx, "step": step, "vec": dv, "point": [dl, d2 as f64]}));
                    pgood = false;
                }
            }
            let coasting = coast.map_or(false, |(s, e)| step >= s && step < e);
            if good {
                // Domain boundary of the f32 filter (not a verdict): the noise model scales with the filter's own predicted
                // height h, measurement variance R = (wp*h)^2. During a gap the prior variance P grows like t^3 and, for a
                // shrinking object, h is extrapolated towards zero, so R/P can fall below f32 resolution: the exact
                // posterior R*P/(P+R) ~ R is then not representable next to P in the subtraction P - K S K^T, and at h = 0
                // even the textbook posterior is singular. "SPD up to rounding" has no meaning there, so the box part of
                // the trajectory ends (a tracker would have dropped the track long before) while an update would still
                // leave >= 5 significant bits: R/P >= 2^-19 (constant height, default weights: ~460 predictions).
                let (m0, c0) = st.verif_raw();
                let r_pos = (wp * m0[4] as f64).powi(2);
                if !(m0[4] > 0.0 && r_pos >= c0[0] as f64 * (0.5f64).powi(19)) {
                    good = false;
                    rep.count("box_trajectories_ended(measurement variance below 2^-19 of the prior variance)");
                }
            }
            if coasting {
                rep.count("coasting_steps(predict+distance,no update)");
                if coast.map_or(false, |(_, e)| step + 1 == e) {
                    rep.count("long_coasting_episodes");
                    // the object re-appears displaced by up to a few box sizes
                    px += rng.normal() * 2.0 * hcur;
                    py += rng.normal() * 2.0 * hcur;
                }
            }
            if !coasting && rng.chance(upd_p) {
                updates += 1;
                if good {
                    let hs = kf.x.at(4, 0);
                    let (_, _, r) = box_stds(wp, wv, hs);
                    kf.update(&zv(&z), &r);
                    let (m0, c0) = st.verif_raw();
                    let mut one = ref_from(5, &m0, &c0);
                    let (_, _, r1) = box_stds(wp, wv, m0[4] as f64);
                    let innov = zv(&z).iter().zip(m0.iter()).map(|(a, b)| (a - *b as f64).abs()).fold(0.0, f64::max);
                    one.update(&zv(&z), &r1);
                    st = f.update(&st, &z);
                    let (m, c) = st.verif_raw();
                    good &= compare_state(&mut rep, &STEP, "box1", idx, step, "update(one-step)", &m, &c, &one, Some(&c0), innov, &ctx);
                    good = compare_state(&mut rep, &TOL, "box", idx, step, "update", &m, &c, &kf, None, innov, &ctx);
                    // public conversion agrees with the raw state
                    let b = Universal2DBox::try_from(st).unwrap();
                    if b.xc != m[0] || b.yc != m[1] || b.aspect != m[3] || b.height != m[4] || b.angle.unwrap_or(0.0) != m[2] {
                        rep.violation("C07/box/state-conversion", idx, json!({"ctx": ctx, "step": step}));
                    }
                }
                if pgood {
                    let p = Point2::from([z.xc, z.yc]);
                    pkf.update(&[z.xc as f64, z.yc as f64], &[wp, wp]);
                    let (m0, c0) = pst.verif_raw();
                    let mut one = ref_from(2, &m0, &c0);
                    let innov = ((z.xc - m0[0]).abs().max((z.yc - m0[1]).abs())) as f64;
                    one.update(&[z.xc as f64, z.yc as f64], &[wp, wp]);
                    pst = pf.update(&pst, &p);
                    {
                        let (m, c) = pst.verif_raw();
                        pgood &= compare_state(&mut rep, &STEP, "point1", idx, step, "update(one-step)", &m, &c, &one, Some(&c0), innov, &ctx);
                    }
                    pst2 = pf.update(&pst2, &Point2::from([z.yc, z.xc]));
                    vst = vf.update(&vst, &[p, Point2::from([z.yc, z.xc])]);
                    let (m, c) = pst.verif_raw();
                    pgood = compare_state(&mut rep, &TOL, "point", idx, step, "update", &m, &c, &pkf, None, innov, &ctx);
                    let pp: Point2<f32> = Point2::from(pst);
                    if pp.x != m[0] || pp.y != m[1] {
                        rep.violation("C07/point/state-conversion", idx, json!({"ctx": ctx, "step": step}));
                    }
                }
            }
            // vector filter treats its points independently: bit-equal to the two point filters
            if pgood {
                let (a, ac) = vst[0].verif_raw();
                let (b, bc) = vst[1].verif_raw();
                let (p1, p1c) = pst.verif_raw();
                let (p2, p2c) = pst2.verif_raw();
                let eq = |x: &Vec<f32>, y: &Vec<f32>| x.iter().zip(y).all(|(u, v)| u.to_bits() == v.to_bits());
                if !(eq(&a, &p1) && eq(&ac, &p1c) && eq(&b, &p2) && eq(&bc, &p2c)) {
                    rep.violation("C07/vec/state-differs-from-point-filter", idx, json!({"ctx": ctx, "step": step}));
                    pgood = false;
                }
                rep.count("vector_filter_steps_compared");
            }
        }
        if updates >= 10 {
            rep.nontrivial(hh.get());
        }
        // ---- stationary target (box + point): after k identical updates the prediction stays put
        {
            let z = mk(px, py, ang, asp, hcur);
            let mut s = f.initiate(&z);
            let p = Point2::from([z.xc, z.yc]);
            let mut ps = pf.initiate(&p);
            let fresh_ps = pf.initiate(&p);
            let probe = Point2::from([p.x + (hcur * rng.uniform(0.05, 0.6)) as f32, p.y - (hcur * rng.uniform(0.05, 0.6)) as f32]);
            // every step of the stand-still phase is also a one-step differential (the measurement equals the projected
            // mean bit for bit after the first update: a zero innovation still has to shrink the covariance)
            let mut sgood = true;
            for k in 0..(5 + rng.usize(60)) {
                if sgood {
                    let (m0, c0) = s.verif_raw();
                    let mut one = ref_from(5, &m0, &c0);
                    let (_, q1, _) = box_stds(wp, wv, m0[4] as f64);
                    one.predict(&q1);
                    s = f.predict(&s);
                    let (m, c) = s.verif_raw();
                    sgood &= compare_state(&mut rep, &STEP, "box1-standstill", idx, k, "predict(one-step)", &m, &c, &one, Some(&c0), 0.0, &ctx);
                    let mut one = ref_from(5, &m, &c);
                    let (_, _, r1) = box_stds(wp, wv, m[4] as f64);
                    one.update(&zv(&z), &r1);
                    s = f.update(&s, &z);
                    let (m2, c2) = s.verif_raw();
                    sgood &= compare_state(&mut rep, &STEP, "box1-standstill", idx, k, "update(one-step)", &m2, &c2, &one, Some(&c), 0.0, &ctx);
                    let (m0, c0) = ps.verif_raw();
                    let mut one = ref_from(2, &m0, &c0);
                    one.predict(&[wp, wp, wv, wv]);
                    ps = pf.predict(&ps);
                    let (m, c) = ps.verif_raw();
                    sgood &= compare_state(&mut rep, &STEP, "point1-standstill", idx, k, "predict(one-step)", &m, &c, &one, Some(&c0), 0.0, &ctx);
                    sgood &= probe_point_distance(&mut rep, &pf, &ps, &probe, wp, idx, k, "after-predict", &ctx);
                    let mut one = ref_from(2, &m, &c);
                    one.update(&[p.x as f64, p.y as f64], &[wp, wp]);
                    ps = pf.update(&ps, &p);
                    let (m2, c2) = ps.verif_raw();
                    sgood &= compare_state(&mut rep, &STEP, "point1-standstill", idx, k, "update(one-step)", &m2, &c2, &one, Some(&c), 0.0, &ctx);
                    // the same probe point is measured against states whose mean is bit-identical while the covariance
                    // differs (after the prediction, after the update, and against a freshly initiated state at the same place)
                    sgood &= probe_point_distance(&mut rep, &pf, &ps, &probe, wp, idx, k, "after-update", &ctx);
                    sgood &= probe_point_distance(&mut rep, &pf, &fresh_ps, &probe, wp, idx, k, "fresh-state-same-mean", &ctx);
                    rep.count("standstill_steps_compared");
                } else {
                    s = f.predict(&s);
                    s = f.update(&s, &z);
                    ps = pf.predict(&ps);
                    ps = pf.update(&ps, &p);
                }
            }
            for _ in 0..3 {
                s = f.predict(&s);
                ps = pf.predict(&ps);
            }
            let b = Universal2DBox::try_from(s).unwrap();
            let tol = |v: f32| 1e-4 * (1.0 + v.abs() as f64);
            let drift = [(b.xc - z.xc) as f64, (b.yc - z.yc) as f64, (b.height - z.height) as f64, (b.aspect - z.aspect) as f64, (b.angle.unwrap_or(0.0) - z.angle.unwrap_or(0.0)) as f64];
            let lim = [tol(z.xc), tol(z.yc), tol(z.height), tol(z.aspect), tol(z.angle.unwrap_or(0.0))];
            rep.count("stationary_checks");
            if drift.iter().zip(lim.iter()).any(|(d, l)| d.abs() > *l) {
                rep.violation("C07/box/stationary-drift", idx, json!({"ctx": ctx, "measurement": zv(&z), "drift": drift}));
            }
            let pp: Point2<f32> = Point2::from(ps);
            if ((pp.x - p.x) as f64).abs() > tol(p.x) || ((pp.y - p.y) as f64).abs() > tol(p.y) {
                rep.violation("C07/point/stationary-drift", idx, json!({"ctx": ctx, "point": [p.x, p.y], "predicted": [pp.x, pp.y]}));
            }
        }
        if !cli.small && rng.chance(1.0 / 12.0) {
            wide_vector(&mut rep, &mut rng, idx, wp32, wv32);
        }
        if rep.want_sample() {
            rep.sample(json!({"ctx": ctx, "first_measurement[xc,yc,angle,aspect,h]": zv(&z0), "updates": updates}));
        }
    }
    // ---- cost functions: exact identity on a grid (once per process; cheap)
    {
        let mut ds: Vec<f32> = (0..10_000).map(|i| i as f32 * 0.0125).collect();
        for g in CHI2INV95 {
            ds.push(g);
            ds.push(f32::from_bits(g.to_bits() + 1));
            ds.push(f32::from_bits(g.to_bits() - 1));
        }
        ds.extend([0.0, 1e-9, 99.999, 100.0, 100.001, 1e6]);
        let mut gate_box = vec![];
        let mut gate_pt = vec![];
        for d in &ds {
            let (a, b) = (Universal2DBoxKalmanFilter::calculate_cost(*d, false), Universal2DBoxKalmanFilter::calculate_cost(*d, true));
            if b != CHI2_UPPER_BOUND - a {
                gate_box.push(*d);
            }
            let (a, b) = (Point2DKalmanFilter::calculate_cost(*d, false), Point2DKalmanFilter::calculate_cost(*d, true));
            if b != CHI2_UPPER_BOUND - a {
                gate_pt.push(*d);
            }
            let v = Vec2DKalmanFilter::calculate_cost(&[*d], true);
            if v != vec![b] {
                rep.violation("C07/vec/cost-differs-from-point-filter", 0, json!({"d": d}));
            }
            rep.count("cost_grid_points");
        }
        if !gate_box.is_empty() {
            rep.violation("C07/box/cost-inverted-inconsistent", 0, json!({"first_distances": &gate_box[..gate_box.len().min(5)], "count": gate_box.len(), "example": {"d": gate_box[0], "direct": Universal2DBoxKalmanFilter::calculate_cost(gate_box[0], false), "inverted": Universal2DBoxKalmanFilter::calculate_cost(gate_box[0], true)}}));
        }
        if !gate_pt.is_empty() {
            rep.violation("C07/point/cost-inverted-inconsistent", 0, json!({"first_distances": &gate_pt[..gate_pt.len().min(5)], "count": gate_pt.len(), "example": {"d": gate_pt[0], "direct": Point2DKalmanFilter::calculate_cost(gate_pt[0], false), "inverted": Point2DKalmanFilter::calculate_cost(gate_pt[0], true)}}));
        }
    }
    if !cli.small {
        tracker_section(&cli, &mut rep);
    }
    rep.finish();
}
