//! C17 — voting engines: vote counting, weights, top-N order, one winner per track, order independence.
use similari::track::ObservationMetricOk;
use similari::trackers::sort::voting::SortVoting;
use similari::trackers::sort::VotingType;
use similari::trackers::visual_sort::observation_attributes::VisualObservationAttributes;
use similari::trackers::visual_sort::voting::VisualVoting;
use similari::utils::bbox::Universal2DBox;
use similari::voting::best::BestFitVoting;
use similari::voting::topn::TopNVoting;
use similari::voting::Voting;
use std::collections::{BTreeMap, HashMap, HashSet};
use vh::rng::Hasher;
use vh::votingref::{check_sort, check_visual, claims, near, Elt};
use vh::{json, Cli, Report, Rng, Value};

fn to_u(stream: &[Elt]) -> Vec<ObservationMetricOk<Universal2DBox>> {
    stream.iter().map(|e| ObservationMetricOk::new(e.q, e.t, e.w, e.d)).collect()
}
fn to_v(stream: &[Elt]) -> Vec<ObservationMetricOk<VisualObservationAttributes>> {
    stream.iter().map(|e| ObservationMetricOk::new(e.q, e.t, e.w, e.d)).collect()
}
fn js(stream: &[Elt]) -> Value {
    json!(stream.iter().map(|e| json!([e.q, e.t, e.w, e.d])).collect::<Vec<_>>())
}

fn gen_stream(rng: &mut Rng, small: bool, tbase: u64, near_ties: bool, dmode: u8) -> Vec<Elt> {
    let nq = 1 + rng.usize(if small { 2 } else { 6 });
    let nt = 1 + rng.usize(if small { 3 } else { 6 });
    let mut s = vec![];
    let dens = rng.uniform(0.3, 1.0);
    for q in 0..nq {
        for t in 0..nt {
            if !rng.chance(dens) || (1 + q as u64) == (tbase + 1 + t as u64) {
                continue;
            }
            let k = if near_ties { rng.usize(2) } else if small { rng.usize(3) } else { rng.usize(6) };
            // one positional weight per pair (the engines take the pair's weight from any element)
            let w = if rng.chance(0.85) { Some((rng.uniform(0.05, 0.95) * 1000.0).round() as f32 / 1000.0) } else { None };
            if k == 0 && rng.chance(0.5) {
                s.push(Elt { q: 1 + q as u64, t: tbase + 1 + t as u64, w, d: None });
            }
            let mut prev: Option<f32> = None;
            for _ in 0..k {
                // (a vote may repeat an earlier distance of the same pair bit for bit: votes are a multiset)
                let d = if prev.is_some() && rng.chance(0.15) {
                    prev
                } else if rng.chance(0.08) {
                    None
                } else if near_ties {
                    // claims whose weights differ by 8..24 f32 ulps (5e-7..1.4e-6): clearly above the rounding noise of a
                    // one-vote weight at this magnitude (1.2e-7), still ordered by weight
                    Some(f32::from_bits(0.5f32.to_bits() + 8 * rng.usize(4) as u32))
                } else if dmode == 1 {
                    // every distance negative (the library's own cosine() ranges over [-1, 1])
                    Some(-(rng.uniform(0.0, 1.0) as f32).max(1e-3))
                } else if dmode == 2 {
                    Some(rng.uniform(-1.0, 1.0) as f32)
                } else {
                    Some(rng.uniform(0.0, 2.0) as f32)
                };
                if d.is_some() {
                    prev = d;
                }
                s.push(Elt { q: 1 + q as u64, t: tbase + 1 + t as u64, w, d });
            }
        }
    }
    if small {
        s.truncate(7);
    }
    rng.shuffle(&mut s);
    s
}

type TopRes = BTreeMap<u64, Vec<(u64, f64)>>;

fn run_topn(stream: &[Elt], n: usize, maxd: f32, minv: usize) -> TopRes {
    let v: TopNVoting<Universal2DBox> = TopNVoting::new(n, maxd, minv);
    v.winners(to_u(stream)).into_iter().map(|(q, l)| (q, l.into_iter().map(|e| {
        assert_eq!(e.query_track, q);
        (e.winner_track, e.weight)
    }).collect())).collect()
}
fn run_best(stream: &[Elt], maxd: f32, minv: usize) -> TopRes {
    let v: BestFitVoting<Universal2DBox> = BestFitVoting::new(maxd, minv);
    v.winners(to_u(stream)).into_iter().map(|(q, l)| (q, l.into_iter().map(|e| (e.winner_track, e.weight)).collect())).collect()
}
fn run_sort(stream: &[Elt], thr: f32) -> HashMap<u64, Vec<u64>> {
    let qs: HashSet<u64> = stream.iter().map(|e| e.q).collect();
    let ts: HashSet<u64> = stream.iter().map(|e| e.t).collect();
    SortVoting::new(thr, qs.len(), ts.len()).winners(to_u(stream))
}
fn run_visual(stream: &[Elt], thr: f32, maxd: f32, minv: usize) -> BTreeMap<u64, Vec<(u64, bool)>> {
    VisualVoting::new(thr, maxd, minv).winners(to_v(stream)).into_iter().map(|(q, l)| (q, l.into_iter().map(|(t, vt)| (t, matches!(vt, VotingType::Visual))).collect())).collect()
}

/// reference top-N: per query the qualifying claims ordered by decreasing weight, at most n
fn check_topn(rep: &mut Report, idx: u64, stream: &[Elt], n: usize, maxd: f32, minv: usize, res: &TopRes, ctx: &Value) {
    let cl = claims(stream, maxd, minv);
    let mut per_q: BTreeMap<u64, Vec<(u64, f64)>> = BTreeMap::new();
    for ((q, t), (_, w)) in &cl {
        per_q.entry(*q).or_default().push((*t, *w));
    }
    for (q, l) in per_q.iter_mut() {
        l.sort_by(|a, b| b.1.partial_cmp(&a.1).unwrap());
        let got = res.get(q).cloned().unwrap_or_default();
        let want_len = l.len().min(n);
        if got.len() != want_len {
            rep.violation("C17/topn/count", idx, json!({"ctx": ctx, "query": q, "got": got, "expected_claims": l}));
            continue;
        }
        // order by decreasing weight
        for w in got.windows(2) {
            if w[0].1 < w[1].1 {
                rep.violation("C17/topn/order", idx, json!({"ctx": ctx, "query": q, "got": got}));
            }
        }
        // each returned (track, weight) is a qualifying claim with the reference weight
        for (t, w) in &got {
            match cl.get(&(*q, *t)) {
                Some((_, rw)) if (rw - w).abs() <= vh::votingref::noise().max(1e-12 * rw.abs()) => {}
                other => rep.violation("C17/topn/weight-or-membership", idx, json!({"ctx": ctx, "query": q, "track": t, "weight": w, "reference": other.map(|x| x.1)})),
            }
        }
        // the returned set is the top-n: nothing left out has clearly greater weight than something returned
        if got.len() < l.len() && !got.is_empty() {
            let minw = got.iter().map(|x| x.1).fold(f64::INFINITY, f64::min);
            for (t, w) in l.iter() {
                if !got.iter().any(|g| g.0 == *t) && *w > minw && !near(*w, minw) {
                    rep.violation("C17/topn/not-the-top", idx, json!({"ctx": ctx, "query": q, "left_out": [t, w], "got": got}));
                }
            }
        }
    }
    for (q, l) in res {
        if !per_q.contains_key(q) && !l.is_empty() {
            rep.violation("C17/topn/unqualified-query", idx, json!({"ctx": ctx, "query": q, "got": l}));
        }
    }
}

fn check_best(rep: &mut Report, idx: u64, stream: &[Elt], maxd: f32, minv: usize, res: &TopRes, ctx: &Value) -> bool {
    let cl = claims(stream, maxd, minv);
    // per track: claimants by weight
    let mut per_t: BTreeMap<u64, Vec<(u64, f64)>> = BTreeMap::new();
    for ((q, t), (_, w)) in &cl {
        per_t.entry(*t).or_default().push((*q, *w));
    }
    let mut tie = false;
    let mut awarded: HashMap<u64, u64> = HashMap::new();
    // every qualifying claim yields exactly one element for its query: either (track, w) or (query, w)
    let mut elements = 0;
    for (q, l) in res {
        for (t, w) in l {
            elements += 1;
            if *t != *q {
                if awarded.insert(*t, *q).is_some() {
                    rep.violation("C17/bestfit/track-awarded-twice", idx, json!({"ctx": ctx, "track": t, "result": res}));
                }
                match cl.get(&(*q, *t)) {
                    Some((_, rw)) if (rw - w).abs() <= vh::votingref::noise().max(1e-12 * rw.abs()) => {}
                    other => rep.violation("C17/bestfit/weight-or-membership", idx, json!({"ctx": ctx, "query": q, "track": t, "weight": w, "reference": other.map(|x| x.1)})),
                }
            }
        }
    }
    if elements != cl.len() {
        rep.violation("C17/bestfit/element-count", idx, json!({"ctx": ctx, "elements": elements, "qualifying_claims": cl.len(), "result": res}));
    }
    for (t, l) in per_t.iter_mut() {
        l.sort_by(|a, b| b.1.partial_cmp(&a.1).unwrap());
        let top = l[0];
        if l.len() > 1 && near(l[0].1, l[1].1) {
            tie = true;
            continue;
        }
        match awarded.get(t) {
            Some(q) if *q == top.0 => {}
            other => rep.violation("C17/bestfit/not-greatest-claimant", idx, json!({"ctx": ctx, "track": t, "claimants": l, "awarded_to": other})),
        }
    }
    tie
}

/// Maps the small query / track ids of a stream injectively onto wide u64 ids (the stores hand out random u64 ids and users
/// compose ids like (source << 32) | index): tracks become (hi << 32) | (100 + lo) with hi in 0..4, lo in 0..3; queries
/// stay small, become q << 32, get the same two-part form with lo < 100, or are hashed. The two id spaces stay disjoint.
fn widen(stream: &mut [Elt], rng: &mut Rng) {
    let mut tmap: BTreeMap<u64, u64> = BTreeMap::new();
    let mut qmap: BTreeMap<u64, u64> = BTreeMap::new();
    let qshape = rng.usize(4);
    for e in stream.iter() {
        if !tmap.contains_key(&e.t) {
            loop {
                let v = ((rng.usize(4) as u64) << 32) | (100 + rng.usize(3) as u64);
                if !tmap.values().any(|x| *x == v) {
                    tmap.insert(e.t, v);
                    break;
                }
            }
        }
        if !qmap.contains_key(&e.q) {
            loop {
                let v = match qshape {
                    0 => e.q,
                    1 => e.q << 32,
                    2 => ((rng.usize(4) as u64) << 32) | (1 + rng.usize(3) as u64), // (id 0 is reserved by the Hungarian engine)
                    _ => e.q.wrapping_mul(0x9E37_79B9_7F4A_7C15) | 1 << 63,
                };
                if !qmap.values().any(|x| *x == v) {
                    qmap.insert(e.q, v);
                    break;
                }
            }
        }
    }
    for e in stream.iter_mut() {
        e.q = qmap[&e.q];
        e.t = tmap[&e.t];
    }
}

fn permutations(n: usize) -> Vec<Vec<usize>> {
    fn rec(cur: &mut Vec<usize>, used: &mut Vec<bool>, n: usize, out: &mut Vec<Vec<usize>>) {
        if cur.len() == n {
            out.push(cur.clone());
            return;
        }
        for i in 0..n {
            if !used[i] {
                used[i] = true;
                cur.push(i);
                rec(cur, used, n, out);
                cur.pop();
                used[i] = false;
            }
        }
    }
    let mut out = vec![];
    rec(&mut vec![], &mut vec![false; n], n, &mut out);
    out
}

fn canon_top(r: &TopRes, sort_inner: bool) -> Vec<(u64, Vec<(u64, i64)>)> {
    r.iter().filter(|(_, l)| !l.is_empty()).map(|(q, l)| {
        let mut v: Vec<(u64, i64)> = l.iter().map(|(t, w)| (*t, (w * 1e7).round() as i64)).collect();
        if sort_inner {
            v.sort();
        }
        (*q, v)
    }).collect()
}

fn main() {
    let cli = Cli::parse();
    let mut rep = Report::new("C17", &cli);
    rep.note("rule", json!("case = result stream over <= 6 queries x <= 6 tracks x 0..5 distances per pair (missing distances / missing weights included; a quarter of the streams with wide two-part u64 ids (hi << 32) | lo) with random N, min_votes, max_distance, threshold; every 4th case is a small stream (<= 7 elements) that is run in ALL its permutations, larger ones in 50 random permutations. TopN / BestFit / Hungarian (SortVoting) / VisualVoting outputs are compared with references written from the statement (filter <= max_distance, group, >= min_votes, weight = sum(max seen - d), order, top-N; a track goes to its greatest-weight claimant, every qualifying claim yields an element; Hungarian: every query of the stream gets one track or itself, no track twice, objective optimal) and with their own output on the permuted stream. Near-ties (weights within 1e-6 relative) downgrade the comparison and are counted. Non-trivial: at least two queries compete for one track with qualifying claims; distinct by stream hash."));
    rep.note("assumptions", json!(["the tracker-specific engines (Hungarian, Visual) see disjoint query / track id spaces, as in the trackers; the generic engines (top-N, best-fit) are also run with overlapping id spaces", "finite distances >= -1 (the range of the library's own euclidean / cosine functions; 30% of the streams contain negative distances, half of those only negative ones) and non-negative positional weights", "a weight is the real-number sum over exact f32 inputs; weight values are compared, and two weights are treated as tied, within twice the rounding an f32 evaluation of the terms may introduce (votes x 2^-23 x largest magnitude in the stream)"]));
    let n = cli.cases(40_000, 400_000);
    for idx in cli.index_range(n) {
        let mut rng = Rng::for_case(cli.seed, cli.shard, idx);
        let small = idx % 4 == 0;
        // 30% of the cases: query and track ids come from the same id space (as in an owned distance query), which the
        // generic engines (top-N, best-fit) must handle; the tracker-specific engines always see disjoint ids
        let overlap = rng.chance(0.3);
        let near_ties = rng.chance(0.15);
        // distance range: 70% non-negative (Euclidean-like), 15% all negative, 15% mixed sign in [-1, 1] (cosine-like)
        let dmode: u8 = if near_ties { 0 } else { let u = rng.uniform(0.0, 1.0); if u < 0.7 { 0 } else if u < 0.85 { 1 } else { 2 } };
        let stream = gen_stream(&mut rng, small, if overlap { 0 } else { 100 }, near_ties, dmode);
        let mut stream = stream;
        if !overlap && rng.chance(0.35) {
            widen(&mut stream, &mut rng);
            rep.count("cases_with_wide_ids(two-part u64 ids above 2^32)");
        }
        if dmode == 1 {
            rep.count("cases_with_all_distances_negative");
        }
        if overlap {
            rep.count("cases_with_overlapping_id_spaces");
        }
        if near_ties {
            rep.count("cases_with_ulp_level_near_ties");
        }
        let topn = 1 + rng.usize(4);
        let minv = 1 + rng.usize(3);
        let mut maxd = if dmode == 0 { *rng.pick(&[0.3f32, 0.7, 1.0, 1.5, 5.0]) } else { *rng.pick(&[-0.6f32, -0.2, 0.3, 1.0, 5.0]) };
        // a fifth of the streams: the limit IS one of the stream's distances (both are inputs, so "not exceeding" is exact)
        let ds: Vec<f32> = stream.iter().filter_map(|e| e.d).collect();
        if !ds.is_empty() && rng.chance(0.2) {
            maxd = *rng.pick(&ds);
            rep.count("cases_with_a_distance_exactly_at_max_distance");
        }
        let thr = *rng.pick(&[0.1f32, 0.3, 0.5, 0.7]);
        rep.eval();
        let ctx = json!({"stream[q,t,weight,distance]": js(&stream), "topn": topn, "min_votes": minv, "max_distance": maxd, "threshold": thr});
        let r_top = run_topn(&stream, topn, maxd, minv);
        check_topn(&mut rep, idx, &stream, topn, maxd, minv, &r_top, &ctx);
        // exact ties between two claims of one query make the top-N order / cut arbitrary ("accepted either way")
        let tie_t = {
            let cl = claims(&stream, maxd, minv);
            let mut per_q: BTreeMap<u64, Vec<f64>> = BTreeMap::new();
            for ((q, _), (_, w)) in &cl {
                per_q.entry(*q).or_default().push(*w);
            }
            per_q.values().any(|v| {
                let mut v = v.clone();
                v.sort_by(|a, b| a.partial_cmp(b).unwrap());
                v.windows(2).any(|w| near(w[0], w[1]))
            })
        };
        if tie_t {
            rep.count("cases_with_exact_topn_tie");
        }
        let r_best = run_best(&stream, maxd, minv);
        let tie_b = check_best(&mut rep, idx, &stream, maxd, minv, &r_best, &ctx);
        if overlap {
            // generic engines only
            let perms: Vec<Vec<usize>> = (0..20).map(|_| {
                let mut p: Vec<usize> = (0..stream.len()).collect();
                rng.shuffle(&mut p);
                p
            }).collect();
            for p in &perms {
                let s2: Vec<Elt> = p.iter().map(|i| stream[*i]).collect();
                rep.count("permuted_executions");
                let t2 = run_topn(&s2, topn, maxd, minv);
                if canon_top(&t2, true) != canon_top(&r_top, true) && !tie_t {
                    rep.violation("C17/topn/order-dependent", idx, json!({"ctx": ctx, "perm": p, "base": r_top, "permuted": t2}));
                    break;
                }
                let b2 = run_best(&s2, maxd, minv);
                if canon_top(&b2, true) != canon_top(&r_best, true) && !tie_b {
                    rep.violation("C17/bestfit/order-dependent", idx, json!({"ctx": ctx, "perm": p, "base": r_best, "permuted": b2}));
                    break;
                }
            }
            continue;
        }
        let r_sort = run_sort(&stream, thr);
        let cs = check_sort(&stream, thr, &r_sort);
        if let Some(e) = &cs.error {
            rep.violation("C17/hungarian", idx, json!({"ctx": ctx, "error": e, "result": r_sort.iter().collect::<BTreeMap<_, _>>()}));
        }
        let r_vis = run_visual(&stream, thr, maxd, minv);
        let tie_v = check_visual(&mut rep, idx, &stream, thr, maxd, minv, &r_vis, &ctx, "C17");
        if tie_b || tie_v {
            rep.count("cases_with_near_tie_downgraded");
        }
        // permutations
        let perms: Vec<Vec<usize>> = if stream.len() <= 7 && small {
            rep.count("streams_run_in_all_permutations");
            permutations(stream.len())
        } else {
            (0..50).map(|_| {
                let mut p: Vec<usize> = (0..stream.len()).collect();
                rng.shuffle(&mut p);
                p
            }).collect()
        };
        let base_top = canon_top(&r_top, false);
        let base_best = canon_top(&r_best, true);
        for p in &perms {
            let s2: Vec<Elt> = p.iter().map(|i| stream[*i]).collect();
            rep.count("permuted_executions");
            let t2 = run_topn(&s2, topn, maxd, minv);
            if canon_top(&t2, false) != base_top && !tie_t {
                // equal-weight neighbours inside one query's list may swap: accept if the sorted lists agree
                if canon_top(&t2, true) != canon_top(&r_top, true) {
                    rep.violation("C17/topn/order-dependent", idx, json!({"ctx": ctx, "perm": p, "base": r_top, "permuted": t2}));
                    break;
                }
            }
            let b2 = run_best(&s2, maxd, minv);
            if canon_top(&b2, true) != base_best && !tie_b {
                rep.violation("C17/bestfit/order-dependent", idx, json!({"ctx": ctx, "perm": p, "base": r_best, "permuted": b2}));
                break;
            }
            let so2 = run_sort(&s2, thr);
            let c2 = check_sort(&s2, thr, &so2);
            if c2.error.is_some() || c2.objective_lib != cs.objective_lib {
                rep.violation("C17/hungarian/order-dependent", idx, json!({"ctx": ctx, "perm": p, "error": c2.error, "objective": c2.objective_lib, "base_objective": cs.objective_lib}));
                break;
            }
            let v2 = run_visual(&s2, thr, maxd, minv);
            if v2 != r_vis && !tie_v && !tie_b {
                // positional ties inside the Hungarian stage can legitimately differ: compare visual part + objective
                let vis_part = |r: &BTreeMap<u64, Vec<(u64, bool)>>| r.iter().filter(|(_, l)| l[0].1).map(|(q, l)| (*q, l[0].0)).collect::<Vec<_>>();
                if vis_part(&v2) != vis_part(&r_vis) {
                    rep.violation("C17/visual/order-dependent", idx, json!({"ctx": ctx, "perm": p, "base": r_vis, "permuted": v2}));
                    break;
                }
                rep.count("visual_positional_part_differs_under_permutation_(objective-equal ties)");
            }
        }
        // non-trivial?
        let cl = claims(&stream, maxd, minv);
        let mut per_t: HashMap<u64, usize> = HashMap::new();
        for ((_, t), _) in &cl {
            *per_t.entry(*t).or_default() += 1;
        }
        if per_t.values().any(|c| *c >= 2) {
            let mut h = Hasher::new();
            for e in &stream {
                h.u64(e.q).u64(e.t).f32(e.w.unwrap_or(-1.0)).f32(e.d.unwrap_or(-1.0));
            }
            h.u64(topn as u64).u64(minv as u64).f32(maxd).f32(thr);
            rep.nontrivial(h.get());
            rep.count("contested_tracks_cases");
        }
        if cs.greedy < cs.objective_opt {
            rep.count("hungarian_cases_where_greedy_is_suboptimal");
        }
        if rep.want_sample() && stream.len() > 4 && stream.len() < 10 {
            rep.sample(json!({"ctx": ctx, "topn": r_top, "bestfit": r_best, "hungarian": r_sort.iter().collect::<BTreeMap<_, _>>(), "visual[(track,is_visual)]": r_vis}));
        }
    }
    rep.finish();
}
