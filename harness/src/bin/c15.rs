//! C15 — exclusively-owned area share equals the uncovered fraction of the box.
use similari::utils::bbox::{BoundingBox, Universal2DBox};
use similari::utils::clipping::bbox_own_areas::{exclusively_owned_areas, exclusively_owned_areas_normalized_shares};
use std::sync::Mutex;
use vh::geom;
use vh::rng::Hasher;
use vh::{json, Cli, Report, Rng};

static PANICS: Mutex<Vec<(String, String)>> = Mutex::new(Vec::new());

fn poly(b: &Universal2DBox) -> Vec<geom::P> {
    geom::rect(b.xc as f64, b.yc as f64, b.angle.unwrap_or(0.0) as f64, b.height as f64 * b.aspect as f64, b.height as f64)
}

fn js(b: &Universal2DBox) -> vh::Value {
    json!([b.xc, b.yc, b.angle, b.aspect, b.height])
}

use vh::geom::has_near_coincident_edges;

fn gen_set(rng: &mut Rng) -> (Vec<Universal2DBox>, &'static str) {
    let n = 1 + rng.usize(8);
    let fam = *rng.pick(&["integer-grid", "integer-grid", "axis-aligned", "rotated", "rotated", "near-degenerate"]);
    let mut v = vec![];
    match fam {
        "integer-grid" => {
            for _ in 0..n {
                let w = rng.range(1, 8) as f32;
                let h = rng.range(1, 8) as f32;
                let l = rng.range(0, 12) as f32;
                let t = rng.range(0, 12) as f32;
                v.push(BoundingBox::new(l, t, w, h).as_xyaah());
            }
        }
        "axis-aligned" => {
            for _ in 0..n {
                v.push(BoundingBox::new(rng.uniform(0.0, 60.0) as f32, rng.uniform(0.0, 60.0) as f32, rng.uniform(3.0, 40.0) as f32, rng.uniform(3.0, 40.0) as f32).as_xyaah());
            }
        }
        "rotated" => {
            for _ in 0..n {
                let ang = if rng.chance(0.2) {
                    // whole numbers of quarter turns in either direction, exactly or within a few 1e-6 rad
                    Some((rng.range(-6, 6) as f64 * std::f64::consts::FRAC_PI_2 + if rng.chance(0.5) { 0.0 } else { rng.uniform(-8e-6, 8e-6) }) as f32)
                } else if rng.chance(0.8) {
                    Some(rng.uniform(-6.3, 6.3) as f32)
                } else {
                    None
                };
                v.push(Universal2DBox::new(rng.uniform(0.0, 60.0) as f32, rng.uniform(0.0, 60.0) as f32, ang, rng.uniform(0.3, 3.0) as f32, rng.uniform(3.0, 40.0) as f32));
            }
        }
        _ => {
            // near-degenerate: identical boxes, shared edges, right-angle rotations, tiny perturbations
            let base_rot = rng.chance(0.6);
            for i in 0..n {
                if i > 0 && rng.chance(0.6) {
                    let src: Universal2DBox = v[rng.usize(v.len())].clone();
                    let mut b = src.clone();
                    match rng.usize(5) {
                        0 => {}
                        1 => {
                            // shift by exactly one width along its own axis => shared edge
                            let a = b.angle.unwrap_or(0.0) as f64;
                            let w = b.height as f64 * b.aspect as f64;
                            b.xc = (b.xc as f64 + w * a.cos()) as f32;
                            b.yc = (b.yc as f64 + w * a.sin()) as f32;
                        }
                        2 => {
                            b.angle = Some(b.angle.unwrap_or(0.0) + std::f32::consts::FRAC_PI_2 * rng.range(1, 3) as f32);
                        }
                        3 => {
                            b.xc = f32::from_bits(b.xc.to_bits() + rng.range(1, 40) as u32);
                            b.yc = f32::from_bits(b.yc.to_bits() + rng.range(1, 40) as u32);
                            if let Some(a) = b.angle {
                                b.angle = Some(f32::from_bits(a.to_bits() + rng.range(0, 40) as u32));
                            }
                        }
                        _ => {
                            b.height *= rng.uniform(0.5, 1.0) as f32;
                        }
                    }
                    v.push(b);
                } else {
                    let ang = if base_rot { Some(match rng.usize(3) { 0 => rng.range(0, 4) as f32 * std::f32::consts::FRAC_PI_2, _ => rng.uniform(0.0, 3.2) as f32 }) } else { None };
                    v.push(Universal2DBox::new(rng.range(0, 30) as f32, rng.range(0, 30) as f32, ang, rng.range(1, 4) as f32 / 2.0, rng.range(2, 12) as f32));
                }
            }
        }
    }
    // a tenth of the sets: some boxes reach their final parameters through public field writes AFTER gen_vertices() cached
    // the polygon of an earlier state (the trackers call gen_vertices() on every observation box); the share is a
    // function of the current parameters only
    if rng.chance(0.1) {
        for b in v.iter_mut() {
            if rng.chance(0.5) {
                let mut t = Universal2DBox::new(b.xc + 1.5 * b.height, b.yc - 0.5 * b.height, Some(b.angle.unwrap_or(0.0) + 0.8), b.aspect * 1.4, b.height * 0.6);
                t.gen_vertices();
                t.xc = b.xc;
                t.yc = b.yc;
                t.angle = b.angle;
                t.aspect = b.aspect;
                t.height = b.height;
                t.confidence = b.confidence;
                *b = t;
            }
        }
        return (v, match fam { "integer-grid" => "integer-grid/field-writes-after-gen_vertices", "axis-aligned" => "axis-aligned/field-writes-after-gen_vertices", "rotated" => "rotated/field-writes-after-gen_vertices", _ => "near-degenerate/field-writes-after-gen_vertices" });
    }
    (v, fam)
}

fn grid_share(boxes: &[Universal2DBox], i: usize) -> f64 {
    // integer ltwh boxes: count unit cells of box i not inside any other
    let lt: Vec<(i64, i64, i64, i64)> = boxes
        .iter()
        .map(|b| {
            let bb = BoundingBox::try_from(b).unwrap();
            (bb.left.round() as i64, bb.top.round() as i64, bb.width.round() as i64, bb.height.round() as i64)
        })
        .collect();
    let (l, t, w, h) = lt[i];
    let mut own = 0;
    for x in l..l + w {
        for y in t..t + h {
            let covered = lt.iter().enumerate().any(|(j, (l2, t2, w2, h2))| j != i && x >= *l2 && x < l2 + w2 && y >= *t2 && y < t2 + h2);
            if !covered {
                own += 1;
            }
        }
    }
    own as f64 / (w * h) as f64
}

fn sample_share(boxes: &[Universal2DBox], polys: &[Vec<geom::P>], i: usize, k: usize, rng: &mut Rng) -> f64 {
    let b = &boxes[i];
    let (w, h) = (b.height as f64 * b.aspect as f64, b.height as f64);
    let a = b.angle.unwrap_or(0.0) as f64;
    let mut own = 0u64;
    for gx in 0..k {
        for gy in 0..k {
            let (lx, ly) = (((gx as f64 + rng.f64()) / k as f64 - 0.5) * w, ((gy as f64 + rng.f64()) / k as f64 - 0.5) * h);
            let p = (b.xc as f64 + lx * a.cos() - ly * a.sin(), b.yc as f64 + lx * a.sin() + ly * a.cos());
            if !polys.iter().enumerate().any(|(j, q)| j != i && geom::inside_convex(p, q, 0.0)) {
                own += 1;
            }
        }
    }
    own as f64 / (k * k) as f64
}

fn run(boxes: &[Universal2DBox]) -> Result<Vec<f32>, (String, String)> {
    PANICS.lock().unwrap().clear();
    let refs: Vec<&Universal2DBox> = boxes.iter().collect();
    let r = std::panic::catch_unwind(|| {
        let areas = exclusively_owned_areas(&refs);
        exclusively_owned_areas_normalized_shares(&refs, &areas)
    });
    match r {
        Ok(v) => Ok(v),
        Err(_) => {
            let p = PANICS.lock().unwrap();
            Err(p.first().cloned().unwrap_or(("unknown".into(), "unknown".into())))
        }
    }
}

fn main() {
    let cli = Cli::parse();
    let mut rep = Report::new("C15", &cli);
    rep.note("rule", json!("case = set of 1..8 boxes from families integer-grid (exact unit-cell counting reference), axis-aligned, rotated (f64 inclusion-exclusion over convex intersections; a stratified point sample cross-checks the reference on every 50th case) and near-degenerate (identical boxes, shared edges, right-angle rotations, few-ulp perturbations). Checked per box: |share - reference| <= 1e-4 + EPS/area, share in [0,1], independence of the input order (one random permutation), and that the call completes (panics are caught; a panic below exclusively_owned_areas is a violation unless it matches the known finding exactly). A tracker section drives VisualSort / BatchVisualSort (multi-scene batches) with an own-area threshold enabled and requires the share recorded with every touched track's newest observation to equal the share of that detection among its own scene's detections of that call. Non-trivial: some box has a share strictly between 0.02 and 0.98; distinct by parameter bits."));
    rep.note("assumptions", json!(["library divides by area+EPS by design, hence the EPS/area term", "known finding C15/panic/geo-0.27-boolops/near-coincident-edges is keyed on panic location inside geo-0.27.0/src/algorithm AND the input predicate 'two boxes with an edge pair: direction difference < 0.03 rad, line distance < 5% of the smaller side, overlapping extent'"]));
    std::panic::set_hook(Box::new(|info| {
        let loc = info.location().map(|l| format!("{}:{}", l.file(), l.line())).unwrap_or_default();
        let msg = if let Some(s) = info.payload().downcast_ref::<&str>() { s.to_string() } else if let Some(s) = info.payload().downcast_ref::<String>() { s.clone() } else { "?".into() };
        PANICS.lock().unwrap().push((loc, msg));
    }));
    let n = cli.cases(30_000, 300_000);
    // `start`: resume after a case that took the whole process down (see the breadcrumb below)
    let start = cli.param_u64("start", 0);
    let crumb_path = cli.out.as_ref().map(|o| format!("{}.current", o));
    for idx in cli.index_range(n) {
        if idx < start && cli.replay_index.is_none() {
            continue;
        }
        let mut rng = Rng::for_case(cli.seed, cli.shard, idx);
        let (boxes, fam) = gen_set(&mut rng);
        rep.eval();
        rep.count(&format!("family/{}", fam));
        let polys: Vec<Vec<geom::P>> = boxes.iter().map(poly).collect();
        // breadcrumb: geo's sweep can run away (unbounded allocation) instead of panicking; the process then dies on its
        // address-space limit, which no catch_unwind sees. The orchestrator reads this file to name the input, records the
        // observation and resumes the shard after it.
        if !fam.starts_with("integer-grid") && !fam.starts_with("axis-aligned") {
            if let Some(pth) = &crumb_path {
                let _ = std::fs::write(pth, json!({"index": idx, "family": fam, "near_coincident_edges": has_near_coincident_edges(&polys),
                    "boxes[xc,yc,angle,aspect,h]": boxes.iter().map(js).collect::<Vec<_>>()}).to_string());
            }
        }
        let case = || json!({"family": fam, "boxes[xc,yc,angle,aspect,h]": boxes.iter().map(js).collect::<Vec<_>>()});
        let shares = match run(&boxes) {
            Ok(s) => s,
            Err((loc, msg)) => {
                let in_geo = loc.contains("geo-0.27.0/src/algorithm/");
                let near = has_near_coincident_edges(&polys);
                let where_ = if in_geo { "geo-0.27-boolops".to_string() } else { format!("other:{}", loc.rsplit('/').next().unwrap_or("")) };
                let class = if near { "near-coincident-edges" } else { "no-near-coincident-edges" };
                rep.count(&format!("panic/{}/{}", where_, class));
                rep.violation(&format!("C15/panic/{}/{}", where_, class), idx, json!({"case": case(), "location": loc, "message": msg}));
                continue;
            }
        };
        rep.count("completed");
        if shares.len() != boxes.len() {
            rep.violation("C15/length", idx, case());
            continue;
        }
        let mut nontrivial = false;
        let mut refs = vec![];
        for i in 0..boxes.len() {
            let area = geom::shoelace(&polys[i]);
            let r = if fam.starts_with("integer-grid") {
                rep.count("exact_grid_references");
                grid_share(&boxes, i)
            } else {
                let others: Vec<Vec<geom::P>> = polys.iter().enumerate().filter(|(j, _)| *j != i).map(|(_, p)| p.clone()).collect();
                geom::uncovered_area(&polys[i], &others) / area
            };
            refs.push(r);
            let s = shares[i] as f64;
            if !(0.0..=1.0).contains(&s) {
                rep.violation("C15/range", idx, json!({"case": case(), "box": i, "share": s}));
            }
            let tol = 1e-4 + 2.0 * (similari::EPS as f64) / area;
            rep.max("share_abs_err", (s - r).abs());
            if (s - r).abs() > tol {
                // arbiter: a dense stratified sample in the box's own frame decides between library and reference
                let est = sample_share(&boxes, &polys, i, 500, &mut rng);
                if (est - r).abs() < (est - s).abs() && (est - s).abs() > 3e-3 {
                    rep.violation(&format!("C15/share/{}", fam), idx, json!({"case": case(), "box": i, "share": s, "reference": r, "dense_sampling": est}));
                } else if (s - r).abs() > 3e-3 && (est - r).abs() > 3e-3 {
                    rep.inconclusive(&format!("case {}: reference {} disagrees with library {} and with dense sampling {}", idx, r, s, est));
                } else {
                    rep.count("disagreement_below_sampling_resolution");
                    rep.violation(&format!("C15/share/{}/small", fam), idx, json!({"case": case(), "box": i, "share": s, "reference": r, "dense_sampling": est}));
                }
            }
            if r > 0.02 && r < 0.98 {
                nontrivial = true;
            }
            if r >= 1.0 - 1e-12 {
                rep.count("boxes_overlapping_nothing");
            }
            if r <= 1e-12 {
                rep.count("boxes_fully_covered");
            }
        }
        // cross-check the reference itself by stratified sampling now and then
        if idx % 50 == 0 && !fam.starts_with("integer-grid") {
            let i = rng.usize(boxes.len());
            let b = &boxes[i];
            let (w, h) = (b.height as f64 * b.aspect as f64, b.height as f64);
            let a = b.angle.unwrap_or(0.0) as f64;
            let k = 140;
            let mut own = 0;
            for gx in 0..k {
                for gy in 0..k {
                    let (lx, ly) = (((gx as f64 + rng.f64()) / k as f64 - 0.5) * w, ((gy as f64 + rng.f64()) / k as f64 - 0.5) * h);
                    let p = (b.xc as f64 + lx * a.cos() - ly * a.sin(), b.yc as f64 + lx * a.sin() + ly * a.cos());
                    if !polys.iter().enumerate().any(|(j, q)| j != i && geom::inside_convex(p, q, 0.0)) {
                        own += 1;
                    }
                }
            }
            let est = own as f64 / (k * k) as f64;
            rep.count("reference_cross_checks");
            rep.max("reference_vs_sampling_abs_diff", (est - refs[i]).abs());
            if (est - refs[i]).abs() > 0.02 {
                rep.inconclusive(&format!("reference self-check failed at case {}: inclusion-exclusion {} vs sampling {}", idx, refs[i], est));
            }
        }
        // order independence
        if boxes.len() > 1 {
            let mut perm: Vec<usize> = (0..boxes.len()).collect();
            rng.shuffle(&mut perm);
            let pb: Vec<Universal2DBox> = perm.iter().map(|k| boxes[*k].clone()).collect();
            match run(&pb) {
                Ok(s2) => {
                    for (pos, k) in perm.iter().enumerate() {
                        if (s2[pos] as f64 - shares[*k] as f64).abs() > 1e-5 {
                            rep.violation("C15/order-dependent", idx, json!({"case": case(), "perm": perm, "shares": shares, "permuted_shares": s2}));
                            break;
                        }
                    }
                    rep.count("order_checks");
                }
                Err((loc, msg)) => {
                    let in_geo = loc.contains("geo-0.27.0/src/algorithm/");
                    let near = has_near_coincident_edges(&polys);
                    let where_ = if in_geo { "geo-0.27-boolops".to_string() } else { format!("other:{}", loc.rsplit('/').next().unwrap_or("")) };
                    let class = if near { "near-coincident-edges" } else { "no-near-coincident-edges" };
                    rep.count(&format!("panic/{}/{}", where_, class));
                    rep.violation(&format!("C15/panic/{}/{}", where_, class), idx, json!({"case": case(), "perm": perm, "location": loc, "message": msg}));
                }
            }
        }
        if nontrivial {
            let mut hh = Hasher::new();
            for b in &boxes {
                hh.f32(b.xc).f32(b.yc).f32(b.angle.unwrap_or(-9.0)).f32(b.aspect).f32(b.height);
            }
            rep.nontrivial(hh.get());
        }
        if rep.want_sample() && nontrivial && boxes.len() <= 4 && boxes.len() >= 3 {
            rep.sample(json!({"case": case(), "shares": shares, "reference": refs}));
        }
    }
    // ---- the trackers hand exactly this computation's result to each detection (VisualSort / BatchVisualSort with an
    // own-area threshold enabled): the share recorded with the newest observation of every touched track must equal the
    // share of that detection among the detections of ITS scene in THIS call
    {
        use vh::posref::own_shares_lib as own_shares;
        use vh::trk::*;
        let nh = cli.cases(96, 1200);
        for k in cli.index_range(nh) {
            if k >> 40 != 0 {
                continue;
            }
            let idx = (3u64 << 40) | k;
            let mut rng = Rng::for_case(cli.seed, cli.shard, idx);
            let kind = if k % 2 == 0 { Kind::Visual } else { Kind::BatchVisual };
            let mut cfg = gen_cfg(&mut rng, kind);
            cfg.vis.own_use = *rng.pick(&[0.0f32, 0.3, 0.6]);
            cfg.vis.own_collect = if cfg.vis.own_use == 0.0 { *rng.pick(&[0.3f32, 0.6]) } else { *rng.pick(&[0.0f32, 0.3]) };
            let w = WorldOpts { scenes: 1 + rng.usize(3), same_region: rng.chance(0.5), preset: *rng.pick(&["crowd", "convoy", "crossing", "random"]), rotated: rng.chance(0.3), features: true, feat_dim: 3,
                duplicates: false, nobj: 2 + rng.usize(5), steps: 30, low_quality: false, avoid_coincident: true, low_conf: false, vary_nobj: false };
            let h = HistOpts { len: 10 + rng.usize(15), lifecycle_ops: false, clear_wasted: false, auto_waste_ops: false, batches: kind.is_batch(), empty_calls: false };
            let ops = gen_history(&mut rng, &w, &h);
            let mut trk = AnyTracker::new(&cfg);
            rep.eval();
            'hist: for op in &ops {
                let calls: Vec<(u64, Vec<Det>)> = match op {
                    Op::Predict { scene, dets } => vec![(*scene, dets.clone())],
                    Op::Batch(b) => b.clone(),
                    _ => continue,
                };
                let results: Vec<(u64, Vec<Rec>)> = if kind.is_batch() { trk.predict_batch(&calls) } else { calls.iter().map(|(s, d)| (*s, trk.predict(*s, d))).collect() };
                let live: std::collections::HashMap<u64, LiveTrack> = trk.live().into_iter().map(|t| (t.id, t)).collect();
                for (scene, recs) in &results {
                    let dets = &calls.iter().find(|c| c.0 == *scene).unwrap().1;
                    if dets.is_empty() {
                        continue;
                    }
                    let expect = own_shares(dets);
                    for (i, r) in recs.iter().enumerate() {
                        rep.count("tracker_recorded_shares_checked");
                        match live.get(&r.id).and_then(|t| t.own_share) {
                            Some(s) if (s - expect[i]).abs() <= 1e-6 => {}
                            other => {
                                rep.violation(&format!("C15/tracker/{:?}/recorded-share-differs", kind), idx, json!({"scene": scene, "det": i, "recorded": other, "share_among_the_scene's_detections": expect[i], "cfg": cfg.js(),
                                    "dets": dets.iter().map(|d| d.b.js()).collect::<Vec<_>>(), "scenes_in_call": calls.iter().map(|c| c.0).collect::<Vec<_>>()}));
                                break 'hist;
                            }
                        }
                    }
                }
            }
        }
    }
    rep.finish();
}
