//! C08 — oriented-box intersection / IoU are exact; the distance pre-filter is sound.
use similari::track::ObservationAttributes;
use similari::trackers::visual_sort::observation_attributes::VisualObservationAttributes;
use similari::utils::bbox::{BoundingBox, Universal2DBox};
use similari::utils::clipping::sutherland_hodgman_clip;
use vh::geom;
use vh::rng::Hasher;
use vh::{json, Cli, Report, Rng};

#[derive(Clone, Copy, Debug)]
struct B {
    xc: f32,
    yc: f32,
    angle: Option<f32>,
    aspect: f32,
    h: f32,
}
impl B {
    fn lib(&self) -> Universal2DBox {
        Universal2DBox::new(self.xc, self.yc, self.angle, self.aspect, self.h)
    }
    fn w(&self) -> f64 {
        self.h as f64 * self.aspect as f64
    }
    fn poly(&self) -> Vec<geom::P> {
        geom::rect(self.xc as f64, self.yc as f64, self.angle.unwrap_or(0.0) as f64, self.w(), self.h as f64)
    }
    fn area(&self) -> f64 {
        self.w() * self.h as f64
    }
    fn js(&self) -> vh::Value {
        json!([self.xc, self.yc, self.angle, self.aspect, self.h])
    }
    fn hash(&self, h: &mut Hasher) {
        h.f32(self.xc).f32(self.yc).f32(self.angle.unwrap_or(-77.0)).f32(self.aspect).f32(self.h);
    }
}

fn rand_angle(rng: &mut Rng) -> Option<f32> {
    match rng.usize(7) {
        0 => None,
        1 => Some(0.0),
        2 => Some(rng.range(-6, 6) as f32 * std::f32::consts::FRAC_PI_2),
        3 => Some(rng.uniform(-20.0, 20.0) as f32),
        _ => Some(rng.uniform(0.0, std::f64::consts::TAU) as f32),
    }
}

fn rand_box(rng: &mut Rng, coord: f64, size_lo: f64, size_hi: f64) -> B {
    let h = rng.log_uniform(size_lo, size_hi) as f32;
    let w = rng.log_uniform(size_lo, size_hi);
    B {
        xc: rng.uniform(-coord, coord) as f32,
        yc: rng.uniform(-coord, coord) as f32,
        angle: rand_angle(rng),
        aspect: (w / h as f64) as f32,
        h,
    }
}

/// second box placed relative to the first so that the pair is interesting
fn gen_pair(rng: &mut Rng) -> (B, B, &'static str) {
    let coord = *rng.pick(&[10.0, 100.0, 1000.0, 10000.0]);
    let fam = rng.usize(10);
    let a = match fam {
        _ => {
            let s = rng.log_uniform(0.1, 1000.0);
            rand_box(rng, coord, (s / 4.0).max(0.1), (s * 4.0).min(1000.0))
        }
    };
    let size = (a.w() + a.h as f64) / 2.0;
    match fam {
        0 | 1 | 2 => {
            // general position: nearby box of comparable size
            let mut b = rand_box(rng, coord, (size / 4.0).max(0.1), (size * 4.0).min(1000.0));
            let r = rng.uniform(0.0, 1.6) * size;
            let t = rng.uniform(0.0, std::f64::consts::TAU);
            b.xc = (a.xc as f64 + r * t.cos()) as f32;
            b.yc = (a.yc as f64 + r * t.sin()) as f32;
            (a, b, "general")
        }
        3 => (a, a, "identical"),
        4 => {
            // almost identical (GitHub #84 family): few-ulp / 1e-4 relative perturbations
            let mut b = a;
            let p = |rng: &mut Rng, v: f32, rel: f64| (v as f64 * (1.0 + rng.uniform(-rel, rel))) as f32;
            let rel = *rng.pick(&[1e-7, 1e-5, 1e-3]);
            b.xc = (a.xc as f64 + rng.uniform(-rel, rel) * size) as f32;
            b.yc = (a.yc as f64 + rng.uniform(-rel, rel) * size) as f32;
            b.h = p(rng, a.h, rel);
            b.aspect = p(rng, a.aspect, rel);
            if rng.chance(0.5) {
                b.angle = Some((a.angle.unwrap_or(0.0) as f64 + rng.uniform(-rel, rel)) as f32);
            }
            (a, b, "almost-identical")
        }
        5 => {
            // nested
            let mut b = a;
            b.h = (a.h as f64 * rng.uniform(0.1, 0.9)) as f32;
            b.angle = if rng.chance(0.5) { a.angle } else { rand_angle(rng) };
            b.aspect = (a.aspect as f64 * rng.uniform(0.5, 1.0)) as f32;
            (a, b, "nested")
        }
        6 => {
            // same orientation, shifted along an axis by exactly width/height fractions: touching / edge sharing
            let ang = a.angle.unwrap_or(0.0) as f64;
            let k = *rng.pick(&[1.0, 1.0, 0.5, 1.0 + 1e-6, 1.0 - 1e-6, 2.0]);
            let along_w = rng.chance(0.5);
            let d = if along_w { a.w() * k } else { a.h as f64 * k };
            let (dx, dy) = if along_w { (d * ang.cos(), d * ang.sin()) } else { (-d * ang.sin(), d * ang.cos()) };
            let mut b = a;
            b.xc = (a.xc as f64 + dx) as f32;
            b.yc = (a.yc as f64 + dy) as f32;
            (a, b, "touching/edge-sharing")
        }
        7 => {
            // crossing at right angles
            let mut b = a;
            b.angle = Some((a.angle.unwrap_or(0.0) as f64 + std::f64::consts::FRAC_PI_2) as f32);
            b.aspect = (a.aspect as f64 * rng.uniform(0.5, 3.0)) as f32;
            (a, b, "right-angle-cross")
        }
        8 => {
            // far apart or just around the too_far radius
            let mut b = rand_box(rng, coord, (size / 4.0).max(0.1), (size * 4.0).min(1000.0));
            let ra = (a.w().powi(2) + (a.h as f64).powi(2)).sqrt() / 2.0;
            let rb = (b.w().powi(2) + (b.h as f64).powi(2)).sqrt() / 2.0;
            let r = (ra + rb) * rng.uniform(0.8, 1.3);
            let t = rng.uniform(0.0, std::f64::consts::TAU);
            b.xc = (a.xc as f64 + r * t.cos()) as f32;
            b.yc = (a.yc as f64 + r * t.sin()) as f32;
            (a, b, "around-radius")
        }
        _ => {
            // both unrotated (closed form applicable)
            let mut a = a;
            a.angle = if rng.chance(0.5) { None } else { Some(0.0) };
            let mut b = rand_box(rng, coord, (size / 4.0).max(0.1), (size * 4.0).min(1000.0));
            b.angle = if rng.chance(0.5) { None } else { Some(0.0) };
            b.xc = (a.xc as f64 + rng.uniform(-1.0, 1.0) * size) as f32;
            b.yc = (a.yc as f64 + rng.uniform(-1.0, 1.0) * size) as f32;
            (a, b, "axis-aligned")
        }
    }
}

fn main() {
    let cli = Cli::parse();
    let mut rep = Report::new("C08", &cli);
    rep.note("rule", json!("case = pair of valid boxes (sizes 0.1..1e3, coordinates up to 1e4, angle None/0/k*pi/2/|angle|>2pi/random) from families general / identical / almost-identical (GitHub #84) / nested / touching-edge-sharing / right-angle-cross / around-the-too_far-radius / axis-aligned. Reference: f64 convex intersection by vertex-inclusion + edge-crossing collection (not Sutherland-Hodgman) on the exact f32 parameters. Checked: intersection area, IoU = I/(A1+A2-I), range, symmetry, identical=1, presence/absence (only when clearly overlapping / clearly separated), rigid-motion invariance, closed-form axis-aligned agreement, too_far soundness, same through VisualObservationAttributes and sutherland_hodgman_clip; every 4th pair is also evaluated with the first box brought to its parameters AFTER gen_vertices() had cached its polygon in an earlier state (through rotate_mut: all entry points; through public field writes: the entry points that copy their arguments). Non-trivial: reference overlap strictly between 1% and 99% of the smaller box; distinct by parameter bits."));
    rep.note("assumptions", json!(["area tolerance = 1e-6*min(A1,A2) + 4e-16*(coordinate scale)^2 (the latter is the f64 cancellation floor of cross products at that offset from the origin, scaled) ", "IoU judged to 1e-5 (the library's EPS)", "presence/absence judged only when reference overlap > 1e-4*min area or separation > 1e-4*size"]));
    let n = cli.cases(2_000_000, 40_000_000);
    for idx in cli.index_range(n) {
        let mut rng = Rng::for_case(cli.seed, cli.shard, idx);
        let (a, b, fam) = gen_pair(&mut rng);
        rep.eval();
        rep.count(&format!("family/{}", fam));
        let (la, lb) = (a.lib(), b.lib());
        let (pa, pb) = (a.poly(), b.poly());
        let iref = geom::intersection_area(&pa, &pb);
        let amin = a.area().min(b.area());
        let cscale = (a.xc.abs() as f64).max(a.yc.abs() as f64).max(b.xc.abs() as f64).max(b.yc.abs() as f64) + a.w() + a.h as f64 + b.w() + b.h as f64;
        let size_min = a.w().min(a.h as f64).min(b.w()).min(b.h as f64);
        // f64 cancellation floor of the library's / reference's determinant arithmetic: ~ eps64 * cscale^2 / size * size
        let tol = 1e-6 * amin + 4e-16 * cscale * cscale * (1.0 + (a.w() + a.h as f64 + b.w() + b.h as f64) / size_min);
        let det = |what: &str, got: f64, exp: f64| json!({"what": what, "family": fam, "a": a.js(), "b": b.js(), "got": got, "expected": exp, "tol": tol});

        let il = Universal2DBox::intersection(&la, &lb);
        let err = (il - iref).abs();
        rep.max("area_err_over_min_area", err / amin);
        rep.max("area_err_over_tol", err / tol);
        if !(err <= tol) {
            rep.violation(&format!("C08/intersection/{}", fam), idx, det("intersection", il, iref));
        }
        // direct clip both ways
        {
            let parea = |p: &[(f64, f64)]| geom::shoelace(p);
            let ext = |coords: Vec<(f64, f64)>| coords;
            let c1p = sutherland_hodgman_clip(&la.get_vertices(), &lb.get_vertices());
            let c1 = parea(&ext(c1p.exterior().0.iter().map(|c| (c.x, c.y)).collect()));
            if !((c1 - iref).abs() <= tol) {
                rep.violation(&format!("C08/clip/{}", fam), idx, det("sutherland_hodgman_clip area", c1, iref));
            }
            let c2p = la.clone().sutherland_hodgman_clip(lb.clone());
            let c2 = parea(&ext(c2p.exterior().0.iter().map(|c| (c.x, c.y)).collect()));
            if !((c2 - iref).abs() <= tol) {
                rep.violation(&format!("C08/clip-method/{}", fam), idx, det("Universal2DBox::sutherland_hodgman_clip area", c2, iref));
            }
        }
        let union_ref = a.area() + b.area() - iref;
        let iou_ref = iref / union_ref;
        let iou_tol = 1e-5 + 2.0 * tol / union_ref;
        let sep = if iref <= 0.0 { geom::separation(&pa, &pb) } else { 0.0 };
        let clearly_overlap = iref > 1e-4 * amin + 10.0 * tol;
        let clearly_apart = iref == 0.0 && sep > 1e-4 * cscale.min((a.w() + b.w()).max(a.h as f64 + b.h as f64)) + 1e-6 * cscale;
        let m1 = Universal2DBox::calculate_metric_object(&Some(&la), &Some(&lb));
        let m2 = Universal2DBox::calculate_metric_object(&Some(&lb), &Some(&la));
        let va = VisualObservationAttributes::new(1.0, la.clone());
        let vb = VisualObservationAttributes::new(1.0, lb.clone());
        let m3 = VisualObservationAttributes::calculate_metric_object(&Some(&va), &Some(&vb));
        for (name, m) in [("iou", m1), ("iou-swapped", m2), ("iou-visual-attrs", m3)] {
            match m {
                Some(v) => {
                    let v = v as f64;
                    if !(v >= 0.0 && v <= 1.0 + 1e-5) {
                        rep.violation(&format!("C08/{}/range", name), idx, det(name, v, iou_ref));
                    }
                    rep.max("iou_abs_err", (v - iou_ref).abs());
                    if !((v - iou_ref).abs() <= iou_tol) {
                        rep.violation(&format!("C08/{}/value/{}", name, fam), idx, det(name, v, iou_ref));
                    }
                    if clearly_apart {
                        rep.violation(&format!("C08/{}/present-but-apart", name), idx, det(name, v, 0.0));
                    }
                    rep.max("iou_max_seen", v);
                }
                None => {
                    if clearly_overlap {
                        rep.violation(&format!("C08/{}/absent-but-overlapping/{}", name, fam), idx, det(name, -1.0, iou_ref));
                    }
                }
            }
        }
        if clearly_overlap {
            rep.count("clearly_overlapping");
        }
        if clearly_apart {
            rep.count("clearly_apart");
        }
        if let (Some(x), Some(y)) = (m1, m2) {
            rep.max("iou_asymmetry", (x as f64 - y as f64).abs());
            if (x as f64 - y as f64).abs() > 2.0 * iou_tol {
                rep.violation("C08/iou/asymmetric", idx, det("iou(a,b) vs iou(b,a)", x as f64, y as f64));
            }
        }
        if fam == "identical" {
            rep.count("identical_checked");
            match m1 {
                Some(v) if (v as f64 - 1.0).abs() <= 1e-5 => {}
                other => rep.violation("C08/iou/identical-not-1", idx, det("identical", other.map(|v| v as f64).unwrap_or(-1.0), 1.0)),
            }
        }
        // too_far soundness
        if Universal2DBox::too_far(&la, &lb) {
            rep.count("too_far_true");
            if iref > 10.0 * tol {
                rep.violation("C08/too_far/rejects-overlapping", idx, det("too_far with overlap", 1.0, iref));
            }
        } else {
            rep.count("too_far_false");
        }
        // closed form when neither is rotated (angle None or Some(0))
        let unrot = |x: &B| x.angle.map(|v| v == 0.0).unwrap_or(true);
        if unrot(&a) && unrot(&b) {
            let mk = |x: &B| {
                let mut u = x.lib();
                u.angle = None;
                BoundingBox::try_from(&u).unwrap()
            };
            let (ba, bb) = (mk(&a), mk(&b));
            let cf = BoundingBox::calculate_metric_object(&Some(&ba), &Some(&bb)).unwrap() as f64;
            // the ltwh form rounds left/top/width in f32: sensitivity ~ ulp32(coord)/size
            let ulp = (cscale as f32).to_bits();
            let ulp = (f32::from_bits(ulp + 1) - cscale as f32) as f64;
            let q = 16.0 * ulp / size_min + 1e-5;
            if q < 0.02 {
                rep.count("closed_form_compared");
                let got = m1.map(|v| v as f64).unwrap_or(0.0);
                rep.max("closed_form_abs_diff", (got - cf).abs());
                if (got - cf).abs() > q + iou_tol {
                    rep.violation("C08/closed-form-mismatch", idx, det("universal vs BoundingBox closed form", got, cf));
                }
            } else {
                rep.count("closed_form_skipped_quantisation");
            }
        }
        // rigid motion: boxes at moderate coordinates, sizes >= 1 => parameter rounding perturbs IoU by << 1e-4
        if cscale < 200.0 && size_min >= 1.0 {
            let th = rng.uniform(-3.0, 3.0);
            let (dx, dy) = (rng.uniform(-50.0, 50.0), rng.uniform(-50.0, 50.0));
            let mv = |x: &B| {
                let (s, c) = th.sin_cos();
                let (px, py) = (x.xc as f64, x.yc as f64);
                B {
                    xc: (px * c - py * s + dx) as f32,
                    yc: (px * s + py * c + dy) as f32,
                    angle: Some((x.angle.unwrap_or(0.0) as f64 + th) as f32),
                    aspect: x.aspect,
                    h: x.h,
                }
            };
            let (a2, b2) = (mv(&a), mv(&b));
            let i2 = Universal2DBox::intersection(&a2.lib(), &b2.lib());
            // parameter rounding: centres move by <= ulp32(300) ~ 3e-5, angle by <= ulp32(25) ~ 2e-6 rad * size
            let slack = 4.0 * (3.1e-5 + 2e-6 * (a.w() + a.h as f64 + b.w() + b.h as f64)) * (a.w() + a.h as f64 + b.w() + b.h as f64) + tol;
            rep.count("rigid_motion_checked");
            rep.max("rigid_motion_diff_over_slack", (i2 - il).abs() / slack);
            if (i2 - il).abs() > slack {
                rep.violation("C08/rigid-motion", idx, json!({"a": a.js(), "b": b.js(), "theta": th, "dx": dx, "dy": dy, "before": il, "after": i2, "slack": slack}));
            }
        }
        // ---- boxes that carry cached vertices from an earlier state (gen_vertices, then changed)
        if idx % 4 == 0 {
            let area_of = |p: &geo::Polygon<f64>| geom::shoelace(&p.exterior().0.iter().map(|c| (c.x, c.y)).collect::<Vec<_>>());
            // (M) changed through the API method rotate_mut only: every entry point must see the new box
            if let Some(target_angle) = a.angle {
                let mut m = Universal2DBox::new(a.xc, a.yc, Some(target_angle + 0.7), a.aspect, a.h);
                m.gen_vertices();
                m.rotate_mut(target_angle);
                rep.count("stale_cache_cases/rotate_mut");
                let i1 = Universal2DBox::intersection(&m, &lb);
                if !((i1 - iref).abs() <= tol) {
                    rep.violation("C08/stale-cache/rotate_mut/intersection", idx, det("intersection after gen_vertices + rotate_mut", i1, iref));
                }
                let i2 = area_of(&m.sutherland_hodgman_clip(lb.clone()));
                if !((i2 - iref).abs() <= tol) {
                    rep.violation("C08/stale-cache/rotate_mut/clip-method", idx, det("Universal2DBox::sutherland_hodgman_clip after gen_vertices + rotate_mut", i2, iref));
                }
            }
            // (F) changed through the public fields: the entry points that work on copies must see the new box
            let mut f = Universal2DBox::new(a.xc + 3.0 * a.h, a.yc - a.h, Some(a.angle.unwrap_or(0.0) + 1.1), a.aspect * 1.7, a.h * 0.6);
            f.gen_vertices();
            f.xc = a.xc;
            f.yc = a.yc;
            f.angle = a.angle;
            f.aspect = a.aspect;
            f.height = a.h;
            rep.count("stale_cache_cases/field-writes");
            let i3 = Universal2DBox::intersection(&f, &lb);
            if !((i3 - iref).abs() <= tol) {
                rep.violation("C08/stale-cache/field-writes/intersection", idx, det("intersection after gen_vertices + field writes", i3, iref));
            }
            let i4 = Universal2DBox::intersection(&lb, &f);
            if !((i4 - iref).abs() <= tol) {
                rep.violation("C08/stale-cache/field-writes/intersection-swapped", idx, det("intersection after gen_vertices + field writes (second argument)", i4, iref));
            }
            let m5 = Universal2DBox::calculate_metric_object(&Some(&f), &Some(&lb)).map(|v| v as f64);
            if let Some(v) = m5 {
                if !((v - iou_ref).abs() <= iou_tol) {
                    rep.violation("C08/stale-cache/field-writes/iou", idx, det("IoU after gen_vertices + field writes", v, iou_ref));
                }
            } else if clearly_overlap {
                rep.violation("C08/stale-cache/field-writes/iou", idx, det("IoU absent after gen_vertices + field writes", -1.0, iou_ref));
            }
            let vf = VisualObservationAttributes::new(1.0, f.clone());
            let m6 = VisualObservationAttributes::calculate_metric_object(&Some(&vf), &Some(&vb)).map(|v| v as f64);
            if let Some(v) = m6 {
                if !((v - iou_ref).abs() <= iou_tol) {
                    rep.violation("C08/stale-cache/field-writes/iou-visual-attrs", idx, det("IoU (visual attrs) after gen_vertices + field writes", v, iou_ref));
                }
            }
        }
        if iref > 0.01 * amin && iref < 0.99 * amin {
            let mut h = Hasher::new();
            a.hash(&mut h);
            b.hash(&mut h);
            rep.nontrivial(h.get());
        }
        if rep.want_sample() && fam == "general" && clearly_overlap {
            rep.sample(json!({"family": fam, "a[xc,yc,angle,aspect,h]": a.js(), "b": b.js(), "lib_intersection": il, "ref_intersection": iref, "lib_iou": m1, "ref_iou": iou_ref}));
        }
    }
    rep.finish();
}
