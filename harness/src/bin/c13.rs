//! C13 — bounded galleries and histories: newest kept, lowest quality evicted.
use std::collections::HashMap;
use vh::posref::{own_area_enabled, own_shares, usable, Tri};
use vh::rng::Hasher;
use vh::trk::*;
use vh::{json, Cli, Report, Rng, Value};

fn pad8(v: &[f32]) -> Vec<f32> {
    let mut p = v.to_vec();
    while p.len() % 8 != 0 || p.is_empty() {
        p.push(0.0);
    }
    p
}

fn tail<T: Clone>(v: &[T], n: usize) -> Vec<T> {
    v[v.len().saturating_sub(n)..].to_vec()
}

fn main() {
    let cli = Cli::parse();
    let mut rep = Report::new("C13", &cli);
    rep.note("rule", json!("case = tracker (all four kinds) with history length 1..10, visual_max_observations 1..8 (minimal track length <= it), collect thresholds on quality / area / own share, and a long-lived world (few objects, one in sixteen parked with bit-identical boxes frame after frame, up to 400 updates per track, quality sequences increasing / decreasing / constant / alternating around the collect threshold, features present or absent). After every call, for every track touched: per-track shadow lists maintained from the API boundary give the expected histories (last min(length, history) observed boxes / predicted boxes / features in arrival order, last entries equal to the record) and the expected gallery: previous stored features, minus one of minimal quality iff the previous count >= max, plus the detection's feature iff the track was just created or the detection meets the collect thresholds; stored count <= max; reported collected count == features actually stored; entry 0 is the newest and the only one with a box; an evicted feature never has higher quality than a kept older one. wasted() conversions are compared with the same shadow lists. Non-trivial update: an eviction or a rejected (below collect threshold) feature happened; distinct by (history, call, track)."));
    rep.note("assumptions", json!(["features are unique per detection (random noise), so a stored feature identifies the detection it came from", "collect decisions whose computed area / own share lies within 1e-6 / 1e-3 of the threshold are skipped and counted; the own share is the f64 inclusion-exclusion reference over the call's boxes (thresholds 0.3..0.95), not the library's own function"]));
    vh::trk::PARKED_OBJECTS.with(|c| c.set(true));
    let n = cli.cases(960, 4000);
    for idx in cli.index_range(n) {
        let mut rng = Rng::for_case(cli.seed, cli.shard, idx);
        let kind = [Kind::Visual, Kind::Sort, Kind::BatchVisual, Kind::Visual, Kind::BatchSort, Kind::Visual][(idx % 6) as usize];
        let mut cfg = gen_cfg(&mut rng, kind);
        cfg.max_idle = 2 + rng.usize(4);
        cfg.pos = if rng.chance(0.5) { PosMetric::IoU(0.1) } else { PosMetric::Maha };
        cfg.vis.metric = VisMetric::Euclid(0.5);
        let long = idx % 5 == 0;
        let w = WorldOpts {
            scenes: 1 + rng.usize(2),
            same_region: false,
            preset: if long { "stop-and-go" } else { *rng.pick(&["random", "crossing", "stop-and-go", "convoy", "crowd"]) },
            rotated: rng.chance(0.2),
            features: kind.is_visual() && rng.chance(0.9),
            feat_dim: *rng.pick(&[2usize, 8, 11]),
            duplicates: false,
            nobj: if long { 1 + rng.usize(2) } else { 1 + rng.usize(5) },
            steps: if long { 100000 } else { 60 },
            low_quality: rng.chance(0.7),
            avoid_coincident: kind.is_visual() && own_area_enabled(&cfg),
            low_conf: false,
            vary_nobj: false,
        };
        let len = if cli.small { 8 } else if long { 200 + rng.usize(if cli.thorough() { 600 } else { 200 }) } else { 40 + rng.usize(60) };
        let h = HistOpts { len, lifecycle_ops: !long, clear_wasted: false, auto_waste_ops: false, batches: kind.is_batch(), empty_calls: false };
        let ops = gen_history(&mut rng, &w, &h);
        let mut trk = AnyTracker::new(&cfg);
        let mut life = Life::new(cfg.max_idle);
        let mut last_gallery: HashMap<u64, Vec<u32>> = HashMap::new();
        rep.eval();
        rep.count(&format!("histories/{:?}", kind));
        let ctx = |ci: usize, extra: Value| json!({"cfg": cfg.js(), "call": ci, "extra": extra});
        let mut max_len_seen = 0usize;
        'hist: for (ci, op) in ops.iter().enumerate() {
            match op {
                Op::Predict { .. } | Op::Batch(_) => {
                    let calls: Vec<(u64, Vec<Det>)> = match op {
                        Op::Predict { scene, dets } => vec![(*scene, dets.clone())],
                        Op::Batch(b) => b.clone(),
                        _ => unreachable!(),
                    };
                    let pre: HashMap<u64, LiveTrack> = trk.live().into_iter().map(|t| (t.id, t)).collect();
                    let results: Vec<(u64, Vec<Rec>)> = if kind.is_batch() { trk.predict_batch(&calls) } else { calls.iter().map(|(s, d)| (*s, trk.predict(*s, d))).collect() };
                    let post: HashMap<u64, LiveTrack> = trk.live().into_iter().map(|t| (t.id, t)).collect();
                    for (id, t) in &post {
                        let mut q: Vec<u32> = t.gallery.iter().filter(|g| g.feature.is_some()).map(|g| g.quality.to_bits()).collect();
                        q.sort();
                        last_gallery.insert(*id, q);
                    }
                    for (scene, recs) in &results {
                        let dets = &calls.iter().find(|c| c.0 == *scene).unwrap().1;
                        let v = life.on_predict(*scene, dets, recs, false);
                        if !v.is_empty() {
                            rep.violation(&format!("C13/{:?}/contract/{}", kind, v[0].0), idx, ctx(ci, v[0].1.clone()));
                            break 'hist;
                        }
                        let shares = if kind.is_visual() && own_area_enabled(&cfg) { Some(own_shares(dets)) } else { None };
                        for (i, (d, r)) in dets.iter().zip(recs.iter()).enumerate() {
                            let t = match post.get(&r.id) {
                                Some(t) => t,
                                None => {
                                    rep.violation(&format!("C13/{:?}/track-missing", kind), idx, ctx(ci, r.js()));
                                    break 'hist;
                                }
                            };
                            let m = &life.tracks[&r.id];
                            max_len_seen = max_len_seen.max(m.length);
                            rep.count("track_updates_checked");
                            // ---- histories
                            let k = cfg.history.min(m.length);
                            let exp_obs = tail(&m.dets, k);
                            let exp_pred = tail(&m.preds, k);
                            let same = |a: &[DBox], b: &[DBox]| a.len() == b.len() && a.iter().zip(b).all(|(x, y)| x.same(y));
                            if !same(&t.observed_hist, &exp_obs) {
                                rep.violation(&format!("C13/{:?}/observed-history", kind), idx, ctx(ci, json!({"track": r.id, "length": m.length, "history_length": cfg.history, "stored": t.observed_hist.len(), "expected": exp_obs.len()})));
                                break 'hist;
                            }
                            if !same(&t.predicted_hist, &exp_pred) {
                                rep.violation(&format!("C13/{:?}/predicted-history", kind), idx, ctx(ci, json!({"track": r.id, "stored": t.predicted_hist.len(), "expected": exp_pred.len()})));
                                break 'hist;
                            }
                            if !t.observed_hist.last().map(|b| b.same(&r.observed)).unwrap_or(false) || !t.predicted_hist.last().map(|b| b.same(&r.predicted)).unwrap_or(false) {
                                rep.violation(&format!("C13/{:?}/last-history-entry-not-the-record", kind), idx, ctx(ci, r.js()));
                                break 'hist;
                            }
                            if !kind.is_visual() {
                                continue;
                            }
                            let exp_feat: Vec<Option<Vec<f32>>> = tail(&m.feats, k).into_iter().map(|f| f.map(|v| pad8(&v))).collect();
                            if t.feature_hist != exp_feat {
                                rep.violation(&format!("C13/{:?}/feature-history", kind), idx, ctx(ci, json!({"track": r.id, "stored": t.feature_hist, "expected": exp_feat})));
                                break 'hist;
                            }
                            // ---- gallery
                            let stored: Vec<&GalleryItem> = t.gallery.iter().filter(|g| g.feature.is_some()).collect();
                            if stored.len() > cfg.vis.max_obs {
                                rep.violation(&format!("C13/{:?}/gallery-exceeds-max", kind), idx, ctx(ci, json!({"track": r.id, "stored": stored.len(), "max": cfg.vis.max_obs})));
                                break 'hist;
                            }
                            if t.collected_count != stored.len() {
                                rep.violation(&format!("C13/{:?}/collected-count", kind), idx, ctx(ci, json!({"track": r.id, "reported": t.collected_count, "stored": stored.len()})));
                                break 'hist;
                            }
                            if t.gallery.is_empty() || !t.gallery[0].has_bbox || t.gallery.iter().skip(1).any(|g| g.has_bbox) {
                                rep.violation(&format!("C13/{:?}/gallery-layout", kind), idx, ctx(ci, json!({"track": r.id, "has_bbox": t.gallery.iter().map(|g| g.has_bbox).collect::<Vec<_>>()})));
                                break 'hist;
                            }
                            if t.gallery[0].feature.is_some() && t.gallery[0].feature.as_ref() != d.feature.as_ref().map(|f| pad8(f)).as_ref() {
                                rep.violation(&format!("C13/{:?}/entry0-not-newest", kind), idx, ctx(ci, json!({"track": r.id})));
                                break 'hist;
                            }
                            let created = !pre.contains_key(&r.id);
                            let collect = if created { Tri::Yes } else { usable(&cfg, d, shares.as_ref().map(|s| s[i]), cfg.vis.q_collect, cfg.vis.own_collect) };
                            if collect == Tri::Band {
                                rep.count("collect_decisions_in_band_skipped");
                                continue;
                            }
                            let mut expected: Vec<(Vec<f32>, f32)> = vec![];
                            let mut evicted: Option<(Vec<f32>, f32)> = None;
                            if let Some(p) = pre.get(&r.id) {
                                let mut old: Vec<(Vec<f32>, f32)> = p.gallery.iter().filter(|g| g.feature.is_some()).map(|g| (g.feature.clone().unwrap(), g.quality)).collect();
                                if old.len() >= cfg.vis.max_obs {
                                    // one of minimal quality goes
                                    let minq = old.iter().map(|x| x.1).fold(f32::INFINITY, f32::min);
                                    // which one of the minimal ones is unspecified: find it from what is stored now
                                    let gone: Vec<usize> = (0..old.len()).filter(|k| !stored.iter().any(|s| s.feature.as_ref() == Some(&old[*k].0))).collect();
                                    if gone.len() != 1 {
                                        rep.violation(&format!("C13/{:?}/eviction-count", kind), idx, ctx(ci, json!({"track": r.id, "previous": old.len(), "max": cfg.vis.max_obs, "evicted": gone.len()})));
                                        break 'hist;
                                    }
                                    let e = old.remove(gone[0]);
                                    if e.1 > minq {
                                        rep.violation(&format!("C13/{:?}/evicted-not-lowest-quality", kind), idx, ctx(ci, json!({"track": r.id, "evicted_quality": e.1, "minimum_quality": minq, "qualities": p.gallery.iter().map(|g| g.quality).collect::<Vec<_>>()})));
                                        break 'hist;
                                    }
                                    evicted = Some(e);
                                    rep.count("evictions_checked");
                                }
                                expected = old;
                            }
                            let mut rejected = false;
                            if let Some(f) = &d.feature {
                                if collect == Tri::Yes {
                                    expected.push((pad8(f), d.quality.unwrap_or(1.0)));
                                } else {
                                    rejected = true;
                                    rep.count("features_rejected_by_collect_thresholds");
                                }
                            }
                            let mut a: Vec<(Vec<u32>, u32)> = expected.iter().map(|(f, q)| (f.iter().map(|x| x.to_bits()).collect(), q.to_bits())).collect();
                            let mut b: Vec<(Vec<u32>, u32)> = stored.iter().map(|g| (g.feature.as_ref().unwrap().iter().map(|x| x.to_bits()).collect(), g.quality.to_bits())).collect();
                            a.sort();
                            b.sort();
                            if a != b {
                                let sig = if b.len() > a.len() && rejected { "feature-below-collect-threshold-stored" } else if b.len() < a.len() { "feature-lost" } else { "gallery-differs" };
                                rep.violation(&format!("C13/{:?}/{}", kind, sig), idx, ctx(ci, json!({"track": r.id, "created": created, "det": d.js(), "collect": format!("{:?}", collect), "expected[quality]": expected.iter().map(|x| x.1).collect::<Vec<_>>(), "stored[quality]": stored.iter().map(|g| g.quality).collect::<Vec<_>>(), "previous[quality]": pre.get(&r.id).map(|p| p.gallery.iter().map(|g| (g.quality, g.feature.is_some())).collect::<Vec<_>>())})));
                                break 'hist;
                            }
                            rep.count("galleries_checked");
                            if evicted.is_some() || rejected {
                                let mut hh = Hasher::new();
                                hh.u64(idx).u64(ci as u64).u64(r.id);
                                rep.nontrivial(hh.get());
                                if rep.want_sample() && evicted.is_some() {
                                    rep.sample(json!({"cfg": cfg.js(), "track": r.id, "previous[quality]": pre.get(&r.id).map(|p| p.gallery.iter().map(|g| g.quality).collect::<Vec<_>>()), "det_quality": d.quality, "stored[quality]": stored.iter().map(|g| g.quality).collect::<Vec<_>>(), "evicted_quality": evicted.map(|e| e.1)}));
                                }
                            }
                        }
                    }
                }
                Op::Skip { scene, n } => {
                    trk.skip_epochs(*scene, *n);
                    life.on_skip(*scene, *n);
                }
                Op::Wasted => {
                    for wr in trk.wasted() {
                        if let Some(m) = life.tracks.get_mut(&wr.id) {
                            m.place = Place::HandedOut;
                            let k = cfg.history.min(m.length);
                            let same = |a: &[DBox], b: &[DBox]| a.len() == b.len() && a.iter().zip(b).all(|(x, y)| x.same(y));
                            let feats_ok = match &wr.feature_hist {
                                None => true,
                                Some(f) => *f == tail(&m.feats, k).into_iter().map(|f| f.map(|v| pad8(&v))).collect::<Vec<_>>(),
                            };
                            if !same(&wr.observed_hist, &tail(&m.dets, k)) || !same(&wr.predicted_hist, &tail(&m.preds, k)) || wr.length != m.length || !feats_ok || !wr.observed.same(m.dets.last().unwrap()) || !wr.predicted.same(m.preds.last().unwrap()) {
                                rep.violation(&format!("C13/{:?}/wasted-conversion", kind), idx, ctx(ci, json!({"track": wr.id, "length": wr.length, "model_length": m.length, "observed_hist": wr.observed_hist.len(), "expected": k})));
                                break 'hist;
                            }
                            // an expired track keeps the gallery it had while alive, and still reports its size truthfully
                            if let Some((count, stored, quals)) = &wr.gallery {
                                let mut q: Vec<u32> = quals.iter().map(|x| x.to_bits()).collect();
                                q.sort();
                                let known = last_gallery.get(&wr.id);
                                if count != stored || known.map_or(false, |k| *k != q) {
                                    rep.violation(&format!("C13/{:?}/wasted-track-gallery", kind), idx, ctx(ci, json!({"track": wr.id, "reported_collected_count": count, "stored_features": stored,
                                        "stored_qualities": quals, "gallery_size_when_last_seen_alive": known.map(|k| k.len())})));
                                    break 'hist;
                                }
                                rep.count("wasted_track_galleries_checked");
                            }
                            rep.count("wasted_conversions_checked");
                        }
                    }
                }
                _ => {}
            }
        }
        rep.max("longest_track_lifetime_updates", max_len_seen as f64);
    }
    rep.finish();
}
