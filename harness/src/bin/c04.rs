//! C04 — scene isolation: scenes never interfere.
use std::collections::HashMap;
use vh::posref::{judge_call, same_grouping, Judgement};
use vh::rng::Hasher;
use vh::trk::*;
use vh::{json, Cli, Report, Rng};

fn main() {
    let cli = Cli::parse();
    let mut rep = Report::new("C04", &cli);
    rep.note("rule", json!("case = Sort / VisualSort / BatchSort / BatchVisualSort (both positional metrics, shards 1..4; for the batch kinds the interleaving is a batch holding several scenes and the projection feeds one scene per batch) x interleaved history of 30..90 predict calls over 2..4 scenes; in 60% of the cases the scenes' objects occupy exactly the same image coordinates; a third of the histories also contain skip_epochs calls for single scenes (scene 0 is addressed through the scene-less API variants in half of the tracker configurations); in ~3% of the cases a further scene of the same tracker holds 1200..1600 tracks (created before the history, never touched again) while the history's own scenes are crowded (14..16 objects). Monitors: (1) lifecycle model: no record may continue a track of another scene; (2) differential: for every scene the projection of the history onto that scene is replayed on a fresh tracker and the interleaved run's records for that scene must equal it call by call - same grouping up to an id bijection built incrementally, and bit-identical boxes, epochs, lengths, custom ids. A grouping difference is handed to the explain-divergence oracle (C02 / C12 references on both runs' own pre-call states): it is a violation unless both outcomes are valid optimal associations (then it is counted as a tie divergence); a difference in numbers with equal grouping is always a violation. Batch-kind histories without skips are run once more pipelined (every call a one-scene batch, all submitted back to back in the interleaved order A, B, A, ..., results read by consumer threads, two thirds of the passes with the voting threads' store writes stalled): every outcome is judged against the pre-call state of the judged interleaved run. One stress case per process and batch kind (48 same-region scenes per batch, 8 voting threads, every detection a new track) checks that records stay within their scene and ids stay fresh while everything the voting threads share collides as often as it can. Non-trivial: scene projections with >= 2 calls in which another scene's call lies between two calls of this scene; distinct by (history, scene)."));
    rep.note("assumptions", json!(["histories contain no bit-identical detections within a call"]));
    let ctl = if cli.small { None } else { Some(vh::sched::Controller::install()) };
    let n = cli.cases(640, 5000);
    for idx in cli.index_range(n) {
        let mut rng = Rng::for_case(cli.seed, cli.shard, idx);
        let kind = [Kind::Sort, Kind::Visual, Kind::Visual, Kind::BatchVisual, Kind::BatchSort][(idx % 5) as usize];
        let mut cfg = gen_cfg(&mut rng, kind);
        cfg.max_idle = rng.usize(4);
        let scenes = 2 + rng.usize(3);
        // a third of the visual cases: an own-area threshold for *using* features, crowded first scene, lone objects elsewhere
        let leak_prone = kind.is_visual() && rng.chance(0.35);
        if leak_prone {
            cfg.vis.own_use = *rng.pick(&[0.3f32, 0.6]);
            cfg.vis.min_track_len = (1 + rng.usize(2)).min(cfg.vis.max_obs);
        }
        // now and then another scene of the same tracker holds a very large population of tracks (a busy camera next to
        // quiet ones): 1200..1600 tracks created before the history starts, never touched again. The history's own scenes
        // are then crowded (14..16 objects) so that their calls are contested assignment problems.
        let heavy = !cli.small && rng.chance(if kind.is_visual() { 0.012 } else { 0.06 });
        let heavy_tracks = if heavy { *rng.pick(&[1200usize, 1600]) } else { 0 };
        let w = WorldOpts {
            scenes,
            same_region: rng.chance(0.6),
            preset: if heavy { *rng.pick(&["crowd", "convoy"]) } else if leak_prone { *rng.pick(&["crowd", "convoy", "teleport"]) } else { *rng.pick(&["random", "crossing", "convoy", "crowd", "lookalikes", "stop-and-go", "teleport", "teleport"]) },
            rotated: rng.chance(0.25),
            features: kind.is_visual(),
            feat_dim: 4,
            duplicates: false,
            nobj: if heavy { 14 + rng.usize(3) } else { 1 + rng.usize(5) },
            steps: 40,
            low_quality: rng.chance(0.3),
            avoid_coincident: kind.is_visual() && (cfg.vis.own_use + cfg.vis.own_collect > 0.0),
            low_conf: false,
            vary_nobj: leak_prone || rng.chance(0.3),
        };
        // a third of the histories also skip epochs of single scenes (scene 0 through the scene-less call when the tracker
        // configuration says so): a skip belongs to its scene's projection and must not touch any other scene
        let with_skips = !heavy && rng.chance(0.35);
        let h = HistOpts { len: if cli.small { 8 } else if heavy { 10 + rng.usize(7) } else { 30 + rng.usize(61) }, lifecycle_ops: with_skips, clear_wasted: false, auto_waste_ops: false, batches: kind.is_batch(), empty_calls: true };
        let mut ops = gen_history(&mut rng, &w, &h);
        // 40% of the histories use wide scene ids that agree in their low 32 bits ((camera << 32) | stream): scene s becomes
        // ((s + 1) << 32) | 5
        let wide_scenes = rng.chance(0.4);
        let sid = |s: u64| if wide_scenes { ((s + 1) << 32) | 5 } else { s };
        if wide_scenes {
            rep.count("histories_with_wide_scene_ids(equal low 32 bits)");
            for op in ops.iter_mut() {
                match op {
                    Op::Predict { scene, .. } | Op::Skip { scene, .. } => *scene = sid(*scene),
                    Op::Batch(b) => b.iter_mut().for_each(|(s, _)| *s = sid(*s)),
                    _ => {}
                }
            }
        }
        rep.eval();
        // interleaved run with pre-call snapshots
        let mut trk = AnyTracker::new(&cfg);
        if heavy {
            rep.count("histories_with_a_heavily_populated_neighbour_scene");
            let mut made = 0usize;
            let mut cell = 0u64;
            while made < heavy_tracks {
                // (small calls: the cost of one call grows with detections x tracks^2)
                let k = 20.min(heavy_tracks - made);
                let dets: Vec<Det> = (0..k).map(|_| {
                    let (cx, cy) = ((cell % 64) as f32 * 60.0 + 20.0, (cell / 64) as f32 * 60.0 + 20.0);
                    cell += 1;
                    Det { b: DBox { xc: cx, yc: cy, angle: None, aspect: 0.8, h: 30.0, conf: 0.9 }, custom: None, feature: None, quality: None, truth: 0 }
                }).collect();
                let r = trk.predict(1_000_000, &dets);
                if r.len() != k {
                    rep.violation(&format!("C04/{:?}/neighbour-scene/record-count", kind), idx, json!({"cfg": cfg.js(), "submitted": k, "records": r.len()}));
                }
                made += k;
            }
        }
        let mut life = Life::new(cfg.max_idle);
        struct CallLog {
            scene: u64,
            dets: Vec<Det>,
            recs: Vec<Rec>,
            pre: Vec<LiveTrack>,
            epoch: usize,
            pos: usize,
            /// Some(n): this entry is a skip of n epochs for `scene`, not a predict call
            skip: Option<usize>,
        }
        let mut log: Vec<CallLog> = vec![];
        let mut bad = false;
        // batch kinds: the interleaving is a batch holding several scenes; the projection feeds one scene per batch
        let mut flat: Vec<(usize, u64, Vec<Det>, Vec<Rec>, Vec<LiveTrack>, usize)> = vec![];
        let mut skips: Vec<(usize, u64, usize)> = vec![];
        for (ci, op) in ops.iter().enumerate() {
            match op {
                Op::Predict { scene, dets } => {
                    let pre = trk.live();
                    let epoch = trk.epoch(*scene) + 1;
                    let recs = trk.predict(*scene, dets);
                    flat.push((ci, *scene, dets.clone(), recs, pre, epoch));
                }
                Op::Batch(b) => {
                    let pre = trk.live();
                    let epochs: HashMap<u64, usize> = b.iter().map(|(s, _)| (*s, trk.epoch(*s) + 1)).collect();
                    let out = trk.predict_batch(b);
                    for (s, dets) in b {
                        let recs = out.iter().find(|x| x.0 == *s).map(|x| x.1.clone()).unwrap_or_default();
                        flat.push((ci, *s, dets.clone(), recs, pre.clone(), epochs[s]));
                    }
                }
                Op::Skip { scene, n } => {
                    let before: Vec<(u64, usize)> = (0..scenes as u64).map(|s| (sid(s), trk.epoch(sid(s)))).collect();
                    trk.skip_epochs(*scene, *n);
                    rep.count("skips_in_interleaved_runs");
                    for (s, e) in before {
                        let want = if s == *scene { e + *n } else { e };
                        if trk.epoch(s) != want {
                            rep.violation(&format!("C04/{:?}/interleaved/skip-changed-epoch-of-scene", kind), idx, json!({"cfg": cfg.js(), "call": ci, "skipped_scene": scene, "n": n, "scene": s, "epoch_before": e, "epoch_after": trk.epoch(s)}));
                            bad = true;
                        }
                    }
                    skips.push((ci, *scene, *n));
                }
                _ => {}
            }
        }
        let mut skip_it = skips.into_iter().peekable();
        for (ci, scene, dets, recs, pre, epoch) in flat.into_iter().map(|(a, b, c, d, e, f)| (a, b, c, d, e, f)) {
            while let Some((sci, ss, n)) = skip_it.peek().cloned() {
                if sci > ci {
                    break;
                }
                life.on_skip(ss, n);
                log.push(CallLog { scene: ss, dets: vec![], recs: vec![], pre: vec![], epoch: 0, pos: sci, skip: Some(n) });
                skip_it.next();
            }
            let (scene, dets) = (&scene, &dets);
            {
                for (sig, d) in life.on_predict(*scene, dets, &recs, false) {
                    rep.violation(&format!("C04/{:?}/interleaved/{}", kind, sig), idx, json!({"cfg": cfg.js(), "call": ci, "scene": scene, "detail": d}));
                    bad = true;
                }
                rep.count("interleaved_calls");
                // every interleaved call must also be a valid association on its own (C02 / C12 references):
                // cross-scene leakage of per-call state shows here even when the grouping happens to coincide
                if let Judgement::Invalid(sig, d) = judge_call(&cfg, *scene, epoch, dets, &recs, &pre) {
                    rep.violation(&format!("C04/{:?}/interleaved-call-invalid/{}", kind, sig), idx, json!({"cfg": cfg.js(), "call": ci, "scene": scene, "detail": d}));
                    bad = true;
                }
                log.push(CallLog { scene: *scene, dets: dets.clone(), recs, pre, epoch, pos: ci, skip: None });
                if bad {
                    break;
                }
            }
        }
        for (sci, ss, n) in skip_it {
            life.on_skip(ss, n);
            log.push(CallLog { scene: ss, dets: vec![], recs: vec![], pre: vec![], epoch: 0, pos: sci, skip: Some(n) });
        }
        if bad {
            continue;
        }
        // per-scene projection
        for s in (0..scenes as u64).map(sid) {
            let calls: Vec<&CallLog> = log.iter().filter(|c| c.scene == s).collect();
            if calls.is_empty() {
                continue;
            }
            let mut solo = AnyTracker::new(&cfg);
            let mut map: HashMap<u64, u64> = HashMap::new();
            let mut rev: HashMap<u64, u64> = HashMap::new();
            let interleaved_between = calls.windows(2).any(|w| w[1].pos > w[0].pos + 1) || (kind.is_batch() && scenes >= 2);
            for (k, c) in calls.iter().enumerate() {
                if let Some(n) = c.skip {
                    solo.skip_epochs(s, n);
                    continue;
                }
                let pre_solo = solo.live();
                let recs_solo = solo.predict(s, &c.dets);
                rep.count("projected_calls_compared");
                if !same_grouping(&c.recs, &recs_solo, &map, &rev) {
                    // explain
                    let ja = judge_call(&cfg, s, c.epoch, &c.dets, &c.recs, &c.pre);
                    let jb = judge_call(&cfg, s, c.epoch, &c.dets, &recs_solo, &pre_solo);
                    // both outcomes may be valid for their OWN pre-call states and still betray interference: up to this call
                    // the two runs agreed record by record, so the scene's unexpired tracks must be the same in both stores
                    let live_of = |pre: &[LiveTrack], epoch: usize| pre.iter().filter(|t| t.scene == s && epoch <= t.last_epoch + cfg.max_idle).count();
                    let (li, ls) = (live_of(&c.pre, c.epoch), live_of(&pre_solo, c.epoch));
                    if li != ls {
                        rep.violation(&format!("C04/{:?}/grouping-differs/unexpired-tracks-of-the-scene-differ-before-the-call", kind), idx, json!({"cfg": cfg.js(), "scene": s, "call_of_scene": k, "epoch": c.epoch,
                            "unexpired_tracks_in_interleaved_run": li, "unexpired_tracks_in_single_scene_run": ls}));
                        break;
                    }
                    match (ja, jb) {
                        (Judgement::Invalid(sig, d), _) => rep.violation(&format!("C04/{:?}/grouping-differs/interleaved-outcome-invalid/{}", kind, sig), idx, json!({"cfg": cfg.js(), "scene": s, "call_of_scene": k, "detail": d})),
                        (_, Judgement::Invalid(sig, d)) => rep.violation(&format!("C04/{:?}/grouping-differs/single-scene-outcome-invalid/{}", kind, sig), idx, json!({"cfg": cfg.js(), "scene": s, "call_of_scene": k, "detail": d})),
                        _ => rep.count("tie_divergences"),
                    }
                    break;
                }
                if let Some(e) = bijection_check(&c.recs, &recs_solo, &mut map, &mut rev) {
                    rep.violation(&format!("C04/{:?}/numbers-differ-with-equal-grouping", kind), idx, json!({"cfg": cfg.js(), "scene": s, "call_of_scene": k, "difference": e,
                        "interleaved": c.recs.iter().map(|r| r.js()).collect::<Vec<_>>(), "single_scene": recs_solo.iter().map(|r| r.js()).collect::<Vec<_>>()}));
                    break;
                }
            }
            if interleaved_between && calls.len() >= 2 {
                let mut hh = Hasher::new();
                hh.u64(idx).u64(s);
                rep.nontrivial(hh.get());
                rep.count("scene_projections_with_interleaving");
            }
        }
        // batch kinds, histories without skips: the interleaved history is run once more PIPELINED - every call becomes a
        // one-scene batch, all of them submitted back to back (A, B, A, ...) with results read by consumer threads, mostly with
        // the voting threads' store writes stalled. Scene A's k-th call must still be associated against the state its own
        // (k-1)-th call left behind, whatever other scenes' batches were submitted in between.
        if kind.is_batch() && !with_skips && !heavy && log.len() >= 3 {
            let plog: Vec<(u64, Vec<Det>, Vec<Rec>, Vec<LiveTrack>, usize)> = log.iter().filter(|c| c.skip.is_none()).map(|c| (c.scene, c.dets.clone(), c.recs.clone(), c.pre.clone(), c.epoch)).collect();
            rep.count("pipelined_interleaved_passes");
            let t0 = std::time::Instant::now();
            if let Some((sig, d)) = vh::posref::pipelined_pass(&cfg, &plog, ctl.as_deref(), &mut rng, &mut rep, "") {
                rep.violation(&format!("C04/{:?}/pipelined-interleaving/{}", kind, sig), idx, json!({"cfg": cfg.js(), "scene_order": plog.iter().map(|c| c.0).collect::<Vec<_>>(), "detail": d}));
            }
            rep.add("pipelined_interleaved_pass_ms", t0.elapsed().as_millis() as u64);
        }
        if w.same_region {
            rep.count("histories_with_scenes_in_the_same_region");
        }
        if rep.want_sample() {
            rep.sample(json!({"cfg": cfg.js(), "scenes": scenes, "same_region": w.same_region, "call_scene_order": log.iter().map(|c| c.scene).collect::<Vec<_>>(), "first_call": log.first().map(|c| c.dets.iter().map(|d| d.js()).collect::<Vec<_>>())}));
        }
    }
    // ---- stress case (per process): 48 scenes occupying the same image region, voted by 8 threads at once; every
    // detection starts a track (max_idle 0). Whatever the voting threads share (id allocation, the store, the epochs)
    // collides as often as it can: every record must stay within its scene and every id must be fresh.
    if !cli.small && cli.replay_index.is_none() {
        for kind in [Kind::BatchSort, Kind::BatchVisual] {
            let mut rng = Rng::for_case(cli.seed, cli.shard, 1 << 40);
            let mut cfg = gen_cfg(&mut rng, kind);
            cfg.max_idle = 0;
            cfg.shards = 2;
            cfg.voting_shards = 8;
            cfg.constraints = None;
            cfg.vis.own_use = 0.0;
            cfg.vis.own_collect = 0.0;
            cfg.pos = PosMetric::IoU(0.3);
            cfg.auto_waste = None;
            let scenes = 48u64;
            let mut trk = AnyTracker::new(&cfg);
            let mut life = Life::new(0);
            let nb = if cli.thorough() { 300 } else { 70 };
            rep.count("stress_cases");
            'stress: for b in 0..nb {
                let batch: Vec<(u64, Vec<Det>)> = (0..scenes)
                    .map(|s| {
                        let dets = (0..2)
                            .map(|k| Det { b: DBox { xc: 100.0 + 500.0 * k as f32 + 97.0 * (b % 7) as f32, yc: 100.0 + 311.0 * ((b + k) % 5) as f32, angle: None, aspect: 0.5, h: 40.0, conf: 1.0 }, custom: Some((b * 1000 + k) as i64), feature: Some(vec![k as f32, 1.0]), quality: Some(1.0), truth: 0 })
                            .collect();
                        (s, dets)
                    })
                    .collect();
                let out = trk.predict_batch(&batch);
                if out.len() != batch.len() {
                    rep.violation(&format!("C04/{:?}/stress/scene-results-missing", kind), 1 << 40, json!({"batch": b, "submitted": batch.len(), "delivered": out.len()}));
                    break 'stress;
                }
                for (scene, recs) in &out {
                    let dets = &batch.iter().find(|c| c.0 == *scene).unwrap().1;
                    for (sig, d) in life.on_predict(*scene, dets, recs, false) {
                        rep.violation(&format!("C04/{:?}/stress/{}", kind, sig), 1 << 40, json!({"batch": b, "scene": scene, "detail": d}));
                        break 'stress;
                    }
                    rep.add("stress_records", recs.len() as u64);
                }
            }
        }
    }
    rep.finish();
}
