//! C03 — track lifecycle: conservation, exact expiry, wasted once, GC timing unobservable.
use std::collections::{BTreeSet, HashMap, HashSet};
use vh::rng::Hasher;
use vh::trk::*;
use vh::{json, Cli, Report, Rng, Value};

#[derive(Clone, Debug, PartialEq)]
enum Out {
    Recs(Vec<(u64, Vec<Rec>)>),
    Wasted(Vec<WastedRec>),
    Idle(Vec<Rec>),
    None,
}

/// run a history with the full lifecycle monitor; returns the per-op outputs (for the GC differential)
fn run(cfg: &Cfg, ops: &[Op], rep: &mut Report, idx: u64, tag: &str, monitor: bool) -> Option<Vec<(Out, Vec<(u64, usize)>)>> {
    let kind = cfg.kind;
    let mut trk = AnyTracker::new(cfg);
    let mut life = Life::new(cfg.max_idle);
    let mut handed_out: HashSet<u64> = HashSet::new();
    let mut outs = vec![];
    let scenes: Vec<u64> = (0..4).collect();
    for (ci, op) in ops.iter().enumerate() {
        let ctx = |extra: Value| json!({"cfg": cfg.js(), "variant": tag, "op_index": ci, "op": format!("{:?}", op).chars().take(300).collect::<String>(), "extra": extra});
        let mut out = Out::None;
        match op {
            Op::Predict { .. } | Op::Batch(_) => {
                let calls: Vec<(u64, Vec<Det>)> = match op {
                    Op::Predict { scene, dets } => vec![(*scene, dets.clone())],
                    Op::Batch(b) => b.clone(),
                    _ => unreachable!(),
                };
                // window: expired tracks still physically in the live store just before the call
                if monitor {
                    let live = trk.live();
                    let lingering = live.iter().filter(|t| life.tracks.get(&t.id).map(|m| life.expired(m)).unwrap_or(false)).count();
                    if lingering > 0 {
                        rep.count("calls_with_expired_tracks_still_in_live_store");
                    }
                }
                let results: Vec<(u64, Vec<Rec>)> = if kind.is_batch() { trk.predict_batch(&calls) } else { calls.iter().map(|(s, d)| (*s, trk.predict(*s, d))).collect() };
                for (scene, recs) in &results {
                    let dets = &calls.iter().find(|c| c.0 == *scene).unwrap().1;
                    for (sig, d) in life.on_predict(*scene, dets, recs, false) {
                        if monitor {
                            rep.violation(&format!("C03/{:?}/{}", kind, sig), idx, ctx(json!({"scene": scene, "detail": d})));
                        }
                    }
                }
                if kind.is_batch() {
                    // scenes submitted with no result never advance the model: predict_batch asserts one result per scene
                }
                rep.add("predict_calls", results.len() as u64);
                out = Out::Recs(results);
            }
            Op::Skip { scene, n } => {
                trk.skip_epochs(*scene, *n);
                life.on_skip(*scene, *n);
                rep.count("skip_calls");
            }
            Op::Wasted => {
                let w = trk.wasted();
                let expect: BTreeSet<u64> = life.tracks.iter().filter(|(_, t)| t.place == Place::Live && life.expired(t)).map(|(i, _)| *i).collect();
                let got: BTreeSet<u64> = w.iter().map(|x| x.id).collect();
                if monitor {
                    if got.len() != w.len() {
                        rep.violation(&format!("C03/{:?}/wasted/same-track-twice-in-one-call", kind), idx, ctx(json!({"ids": w.iter().map(|x| x.id).collect::<Vec<_>>()})));
                    }
                    for x in &w {
                        if handed_out.contains(&x.id) {
                            rep.violation(&format!("C03/{:?}/wasted/handed-out-twice", kind), idx, ctx(json!({"id": x.id})));
                        }
                        match life.tracks.get(&x.id) {
                            None => rep.violation(&format!("C03/{:?}/wasted/unknown-track", kind), idx, ctx(json!({"id": x.id}))),
                            Some(m) => {
                                if !life.expired(m) {
                                    rep.violation(&format!("C03/{:?}/wasted/returned-unexpired-track", kind), idx, ctx(json!({"id": x.id, "last": m.last, "epoch": life.epoch(m.scene), "max_idle": cfg.max_idle})));
                                }
                                if x.length != m.length || x.epoch != m.last || x.scene != m.scene || !x.observed.same(m.dets.last().unwrap()) || !x.predicted.same(m.preds.last().unwrap()) {
                                    rep.violation(&format!("C03/{:?}/wasted/record-differs-from-model", kind), idx, ctx(json!({"wasted": format!("{:?}", x).chars().take(600).collect::<String>(), "model_length": m.length, "model_last": m.last})));
                                }
                            }
                        }
                    }
                    if got != expect {
                        let missing: Vec<_> = expect.difference(&got).collect();
                        if !missing.is_empty() {
                            rep.violation(&format!("C03/{:?}/wasted/expired-track-not-returned", kind), idx, ctx(json!({"missing": missing, "returned": got})));
                        }
                    }
                }
                for x in &w {
                    handed_out.insert(x.id);
                    if let Some(m) = life.tracks.get_mut(&x.id) {
                        m.place = Place::HandedOut;
                    }
                }
                rep.add("tracks_handed_out", w.len() as u64);
                rep.count("wasted_calls");
                out = Out::Wasted(w);
            }
            Op::Idle { scene } => {
                let r = trk.idle(*scene);
                let expect: BTreeSet<u64> = life.live_unexpired(*scene).into_iter().filter(|i| life.tracks[i].last != life.epoch(*scene)).collect();
                let got: BTreeSet<u64> = r.iter().map(|x| x.id).collect();
                if monitor && (got != expect || got.len() != r.len()) {
                    let extra: Vec<_> = got.difference(&expect).cloned().collect();
                    let sig = if extra.iter().any(|i| life.tracks.get(i).map(|m| life.expired(m)).unwrap_or(false)) { "idle/lists-expired-track" } else { "idle/set-differs" };
                    rep.violation(&format!("C03/{:?}/{}", kind, sig), idx, ctx(json!({"scene": scene, "returned": got, "expected": expect, "epoch": life.epoch(*scene), "max_idle": cfg.max_idle})));
                }
                rep.count("idle_calls");
                rep.add("idle_tracks_listed", r.len() as u64);
                out = Out::Idle(r);
            }
            Op::ClearWasted => {
                // which ids are physically in the wasted store is observed, not predicted (not promised GC-independent)
                let ids = trk.wasted_store_ids();
                trk.clear_wasted();
                for i in &ids {
                    if let Some(m) = life.tracks.get_mut(i) {
                        if monitor && m.place != Place::Live {
                            rep.violation(&format!("C03/{:?}/clear/handed-out-track-still-in-wasted-store", kind), idx, ctx(json!({"id": i})));
                        }
                        m.place = Place::Cleared;
                    }
                }
                if monitor && !trk.wasted_store_ids().is_empty() {
                    rep.violation(&format!("C03/{:?}/clear/wasted-store-not-empty", kind), idx, ctx(json!({})));
                }
                rep.add("tracks_cleared", ids.len() as u64);
            }
            Op::SetAutoWaste(p) => {
                trk.set_auto_waste(*p);
                rep.count("set_auto_waste_calls");
            }
        }
        // epochs of every scene
        let ep: Vec<(u64, usize)> = scenes.iter().map(|s| (*s, trk.epoch(*s))).collect();
        if monitor {
            for (s, e) in &ep {
                if *e != life.epoch(*s) {
                    rep.violation(&format!("C03/{:?}/epoch", kind), idx, ctx(json!({"scene": s, "lib": e, "model": life.epoch(*s)})));
                }
            }
            // statistics: physical contents + accounting
            let active: usize = trk.active_stats().iter().sum();
            let wasted: usize = trk.wasted_stats().iter().sum();
            let phys_live = trk.live();
            let phys_wasted = trk.wasted_store_ids();
            if active != phys_live.len() {
                rep.violation(&format!("C03/{:?}/stats/active-differs-from-live-store", kind), idx, ctx(json!({"active_stats": active, "live_store": phys_live.len()})));
            }
            if wasted != phys_wasted.len() {
                rep.violation(&format!("C03/{:?}/stats/wasted-differs-from-wasted-store", kind), idx, ctx(json!({"wasted_stats": wasted, "wasted_store": phys_wasted.len(), "active_stats": active})));
            }
            if active + wasted != life.held() {
                rep.violation(&format!("C03/{:?}/stats/accounting", kind), idx, ctx(json!({"active": active, "wasted": wasted, "model_held": life.held()})));
            }
            // every model-live track is physically in exactly one store
            let a: HashSet<u64> = phys_live.iter().map(|t| t.id).collect();
            let b: HashSet<u64> = phys_wasted.iter().cloned().collect();
            for (i, m) in &life.tracks {
                let n = a.contains(i) as usize + b.contains(i) as usize;
                let want = (m.place == Place::Live) as usize;
                if n != want {
                    rep.violation(&format!("C03/{:?}/placement", kind), idx, ctx(json!({"id": i, "place": format!("{:?}", m.place), "in_live_store": a.contains(i), "in_wasted_store": b.contains(i)})));
                }
                if b.contains(i) && !life.expired(m) {
                    rep.violation(&format!("C03/{:?}/unexpired-track-in-wasted-store", kind), idx, ctx(json!({"id": i})));
                }
            }
            let total_len: usize = life.tracks.values().map(|t| t.length).sum();
            if total_len != life.submitted {
                rep.violation(&format!("C03/{:?}/conservation", kind), idx, ctx(json!({"sum_of_lengths": total_len, "submitted": life.submitted})));
            }
            rep.count("steps_checked");
            if rep.violations_total() > 0 {
                return None;
            }
        }
        outs.push((out, ep));
    }
    rep.add("expired_tracks", life.tracks.values().filter(|t| life.expired(t) || t.place != Place::Live).count() as u64);
    Some(outs)
}

fn compare_outs(a: &[(Out, Vec<(u64, usize)>)], b: &[(Out, Vec<(u64, usize)>)], skip_auto: bool) -> Option<String> {
    // b may contain extra SetAutoWaste steps; both are aligned on non-None outputs and epochs
    let fa: Vec<_> = a.iter().collect();
    let fb: Vec<_> = b.iter().collect();
    let _ = skip_auto;
    if fa.len() != fb.len() {
        return Some(format!("different number of steps {} vs {}", fa.len(), fb.len()));
    }
    let mut map = HashMap::new();
    let mut rev = HashMap::new();
    for (i, (x, y)) in fa.iter().zip(fb.iter()).enumerate() {
        if x.1 != y.1 {
            return Some(format!("step {}: epochs differ {:?} vs {:?}", i, x.1, y.1));
        }
        match (&x.0, &y.0) {
            (Out::None, Out::None) => {}
            (Out::Recs(r1), Out::Recs(r2)) => {
                let mut r1 = r1.clone();
                let mut r2 = r2.clone();
                r1.sort_by_key(|x| x.0);
                r2.sort_by_key(|x| x.0);
                if r1.len() != r2.len() {
                    return Some(format!("step {}: scene results differ", i));
                }
                for (p, q) in r1.iter().zip(r2.iter()) {
                    if p.0 != q.0 {
                        return Some(format!("step {}: scenes differ", i));
                    }
                    if let Some(e) = bijection_check(&p.1, &q.1, &mut map, &mut rev) {
                        return Some(format!("step {} scene {}: {}", i, p.0, e));
                    }
                }
            }
            (Out::Wasted(w1), Out::Wasted(w2)) => {
                let s1: BTreeSet<Option<u64>> = w1.iter().map(|w| map.get(&w.id).cloned()).collect();
                let s2: BTreeSet<Option<u64>> = w2.iter().map(|w| Some(w.id)).collect();
                if s1 != s2 || w1.len() != w2.len() {
                    return Some(format!("step {}: wasted sets differ {:?} vs {:?}", i, w1.iter().map(|w| w.id).collect::<Vec<_>>(), w2.iter().map(|w| w.id).collect::<Vec<_>>()));
                }
            }
            (Out::Idle(w1), Out::Idle(w2)) => {
                let s1: BTreeSet<Option<u64>> = w1.iter().map(|w| map.get(&w.id).cloned()).collect();
                let s2: BTreeSet<Option<u64>> = w2.iter().map(|w| Some(w.id)).collect();
                if s1 != s2 || w1.len() != w2.len() {
                    return Some(format!("step {}: idle sets differ", i));
                }
            }
            _ => return Some(format!("step {}: output kinds differ", i)),
        }
    }
    None
}

fn main() {
    let cli = Cli::parse();
    let mut rep = Report::new("C03", &cli);
    rep.note("rule", json!("case = (tracker kind, metric, shards 1..4, max_idle 0..4, auto-waste period) x random history of 40..200 operations over 1..3 scenes: predict (possibly empty) / batches, skip_epochs, wasted, idle_tracks, clear_wasted, set_auto_waste. A lifecycle reference model advanced only from arguments and returned records is the oracle after EVERY operation: epochs per scene; no expired track continued; wasted() returns exactly the expired not-yet-handed-out tracks, each once over the whole history, with the model's length / last boxes; idle_tracks == unexpired tracks of the scene not updated in the current epoch; active / wasted shard statistics equal the physical contents of the live / wasted store and together account for every track not handed out or cleared (the ids clear_wasted removes are observed just before the call); every track is in exactly one place; sum of lengths == detections submitted. GC-timing differential: the same history without clear_wasted is re-run with auto-waste period 0, 1, 100 and with set_auto_waste calls sprinkled in; records (up to id bijection), wasted sets, idle sets and epochs must be identical. One stress case per process (8 voting threads, 48 scenes per batch, max_idle 0) checks hand-out and accounting while id allocation collides as often as possible. Non-trivial history: at least one expiry and one hand-out; distinct by history hash."));
    rep.note("assumptions", json!(["batch trackers: lifecycle calls only between fully retrieved batches; a batch cannot express an empty scene"]));
    let n = cli.cases(640, 6000);
    for idx in cli.index_range(n) {
        let mut rng = Rng::for_case(cli.seed, cli.shard, idx);
        let kind = [Kind::Sort, Kind::Visual, Kind::BatchSort, Kind::BatchVisual][(idx % 4) as usize];
        let mut cfg = gen_cfg(&mut rng, kind);
        cfg.max_idle = rng.usize(5);
        cfg.auto_waste = *rng.pick(&[None, Some(0), Some(1), Some(3)]);
        let w = WorldOpts {
            scenes: 1 + rng.usize(3),
            same_region: rng.chance(0.3),
            preset: *rng.pick(&PRESETS),
            rotated: rng.chance(0.2),
            features: kind.is_visual() && rng.chance(0.7),
            feat_dim: 4,
            duplicates: false,
            nobj: 1 + rng.usize(5),
            steps: 30,
            low_quality: false,
            avoid_coincident: kind.is_visual() && (cfg.vis.own_use + cfg.vis.own_collect > 0.0),
            low_conf: false,
            vary_nobj: false,
        };
        let len = if cli.small { 8 } else { 40 + rng.usize(if cli.thorough() { 161 } else { 41 }) };
        let h = HistOpts { len, lifecycle_ops: true, clear_wasted: idx % 3 != 0, auto_waste_ops: rng.chance(0.5), batches: kind.is_batch(), empty_calls: true };
        let ops = gen_history(&mut rng, &w, &h);
        rep.eval();
        rep.count(&format!("histories/{:?}", kind));
        let before = (rep.counter("expired_tracks"), rep.counter("tracks_handed_out"));
        let base = run(&cfg, &ops, &mut rep, idx, "monitored", true);
        if base.is_none() {
            continue;
        }
        if rep.counter("expired_tracks") > before.0 && rep.counter("tracks_handed_out") > before.1 {
            let mut hh = Hasher::new();
            hh.u64(idx).str(&format!("{:?}", cfg));
            for o in ops.iter().take(30) {
                if let Op::Predict { dets, .. } = o {
                    for d in dets {
                        d.b.hash(&mut hh);
                    }
                }
            }
            rep.nontrivial(hh.get());
        }
        if rep.want_sample() {
            rep.sample(json!({"cfg": cfg.js(), "first_ops": ops.iter().take(6).map(|o| format!("{:?}", o).chars().take(200).collect::<String>()).collect::<Vec<_>>(), "ops": ops.len()}));
        }
        // GC timing differential (histories without clear_wasted)
        if !h.clear_wasted {
            let plain: Vec<Op> = ops.iter().filter(|o| !matches!(o, Op::SetAutoWaste(_))).cloned().collect();
            let mut c0 = cfg.clone();
            c0.auto_waste = Some(0);
            let ref_out = run(&c0, &plain, &mut rep, idx, "auto_waste=0", false).unwrap();
            for variant in ["auto_waste=1", "auto_waste=100", "sprinkled"] {
                let mut c = cfg.clone();
                let mut o2 = plain.clone();
                match variant {
                    "auto_waste=1" => c.auto_waste = Some(1),
                    "auto_waste=100" => c.auto_waste = None,
                    _ => {
                        c.auto_waste = Some(2);
                    }
                }
                let out = if variant == "sprinkled" {
                    // insert set_auto_waste calls; their (None) outputs are removed before comparison
                    let mut with: Vec<Op> = vec![];
                    let mut marks = vec![];
                    for o in o2.drain(..) {
                        if rng.chance(0.2) {
                            with.push(Op::SetAutoWaste(*rng.pick(&[0usize, 1, 5, 100])));
                            marks.push(true);
                        }
                        with.push(o);
                        marks.push(false);
                    }
                    let r = run(&c, &with, &mut rep, idx, variant, false).unwrap();
                    r.into_iter().zip(marks).filter(|(_, m)| !*m).map(|(x, _)| x).collect::<Vec<_>>()
                } else {
                    run(&c, &o2, &mut rep, idx, variant, false).unwrap()
                };
                rep.count("gc_timing_variants_compared");
                if let Some(e) = compare_outs(&ref_out, &out, true) {
                    rep.violation(&format!("C03/{:?}/gc-timing-observable", kind), idx, json!({"cfg": cfg.js(), "variant": variant, "difference": e}));
                    break;
                }
            }
        }
    }
    // ---- stress case (per process): 8 voting threads, 48 scenes per batch, max_idle 0, every detection a new track in
    // every batch: after each batch wasted() must hand out exactly the tracks of the previous batch, each once, and the
    // statistics must account for every track - id allocation of different voting threads collides as often as it can
    if !cli.small && cli.replay_index.is_none() {
        for kind in [Kind::BatchSort, Kind::BatchVisual] {
            let mut rng = Rng::for_case(cli.seed, cli.shard, 1 << 40);
            let mut cfg = gen_cfg(&mut rng, kind);
            cfg.max_idle = 0;
            cfg.shards = 2;
            cfg.voting_shards = 8;
            cfg.constraints = None;
            cfg.vis.own_use = 0.0;
            cfg.vis.own_collect = 0.0;
            cfg.pos = PosMetric::IoU(0.3);
            cfg.auto_waste = None;
            let scenes = 48u64;
            let mut trk = AnyTracker::new(&cfg);
            let mut life = Life::new(0);
            let nb = if cli.thorough() { 400 } else { 90 };
            rep.count("stress_cases");
            'stress: for b in 0..nb {
                let batch: Vec<(u64, Vec<Det>)> = (0..scenes)
                    .map(|s| {
                        let dets = (0..2)
                            .map(|k| Det { b: DBox { xc: 100.0 + 500.0 * k as f32 + 97.0 * (b % 7) as f32, yc: 100.0 + 311.0 * ((b + k) % 5) as f32, angle: None, aspect: 0.5, h: 40.0, conf: 1.0 }, custom: Some((b * 1000 + k) as i64), feature: Some(vec![k as f32, 1.0]), quality: Some(1.0), truth: 0 })
                            .collect();
                        (s, dets)
                    })
                    .collect();
                let out = trk.predict_batch(&batch);
                let expired_before: BTreeSet<u64> = life.tracks.iter().filter(|(_, t)| t.place == Place::Live).map(|(i, _)| *i).collect();
                for (scene, recs) in &out {
                    let dets = &batch.iter().find(|c| c.0 == *scene).unwrap().1;
                    for (sig, d) in life.on_predict(*scene, dets, recs, false) {
                        rep.violation(&format!("C03/{:?}/stress/{}", kind, sig), 1 << 40, json!({"batch": b, "scene": scene, "detail": d}));
                        break 'stress;
                    }
                    rep.add("stress_records", recs.len() as u64);
                }
                let w: BTreeSet<u64> = trk.wasted().iter().map(|x| x.id).collect();
                if w != expired_before {
                    rep.violation(&format!("C03/{:?}/stress/wasted-set-differs", kind), 1 << 40, json!({"batch": b, "returned": w.len(), "expected": expired_before.len(), "missing": expired_before.difference(&w).take(5).collect::<Vec<_>>(), "unexpected": w.difference(&expired_before).take(5).collect::<Vec<_>>()}));
                    break 'stress;
                }
                for i in &w {
                    life.tracks.get_mut(i).unwrap().place = Place::HandedOut;
                }
                let held: usize = trk.active_stats().iter().sum::<usize>() + trk.wasted_stats().iter().sum::<usize>();
                if held != life.held() {
                    rep.violation(&format!("C03/{:?}/stress/accounting", kind), 1 << 40, json!({"batch": b, "stats": held, "model": life.held()}));
                    break 'stress;
                }
            }
        }
    }
    rep.finish();
}
