//! C01 — tracker output contract: one record per detection, distinct tracks per call, fresh ids.
use std::collections::{HashMap, HashSet};
use vh::rng::Hasher;
use vh::sched::{Controller, Mode};
use vh::trk::*;
use vh::{json, Cli, Report, Rng, Value};

fn main() {
    let cli = Cli::parse();
    let mut rep = Report::new("C01", &cli);
    rep.note("rule", json!("case = (tracker kind in {Sort, BatchSort, VisualSort, BatchVisualSort}, IoU(t)/Mahalanobis, shards 1..4, voting shards 1..4, history 1..10, max_idle 0..3, VisualSORT option grid) x history of 30..120 predict calls / batches over 1..3 scenes from the presets random / crossing / convoy / crowd / lookalikes / teleport / stop-and-go with duplicated detections, empty calls, appearing / disappearing objects, rotated boxes, with/without features. Monitor: lifecycle reference model advanced from the API boundary only: per call one record per detection in order, echoed observed box / custom id / scene (bit-exact; angle None == Some(0)), scene epoch, track length, no id twice within a call, a fresh id has never been issued and has length 1, no id of a handed-out track; batch results: one per submitted scene; half of the batch histories are run pipelined under seeded delay plans (consumer thread started before predict, next batch submitted while the previous one is drained); one stress case per process (8 voting threads, 48 scenes per batch, every detection a new track) hammers id allocation; the stored track (read through get_main_store().get_store()) agrees with the record. Non-trivial call: >= 2 detections with at least one continuation and one new track; distinct by hash of the call."));
    rep.note("assumptions", json!(["batch trackers: a scene appears at most once per batch (the request type is keyed by scene)", "Some(0.0) and None angles denote the same box"]));
    let ctl = if cli.small { None } else { Some(Controller::install()) };
    let n = cli.cases(320, 2400);
    for idx in cli.index_range(n) {
        let mut rng = Rng::for_case(cli.seed, cli.shard, idx);
        let kind = [Kind::Sort, Kind::BatchSort, Kind::Visual, Kind::BatchVisual][(idx % 4) as usize];
        let mut cfg = gen_cfg(&mut rng, kind);
        cfg.max_idle = rng.usize(4);
        let w = WorldOpts {
            scenes: 1 + rng.usize(3),
            same_region: rng.chance(0.3),
            preset: *rng.pick(&PRESETS),
            rotated: rng.chance(0.3),
            features: kind.is_visual() && rng.chance(0.85),
            feat_dim: *rng.pick(&[2usize, 8, 13]),
            duplicates: rng.chance(0.3),
            nobj: 1 + rng.usize(7),
            steps: 40,
            low_quality: rng.chance(0.3),
            avoid_coincident: kind.is_visual() && (cfg.vis.own_use + cfg.vis.own_collect > 0.0),
            low_conf: rng.chance(0.15),
            vary_nobj: false,
        };
        let h = HistOpts { len: if cli.small { 6 } else { 30 + rng.usize(91) }, lifecycle_ops: false, clear_wasted: false, auto_waste_ops: false, batches: kind.is_batch(), empty_calls: true };
        let ops = gen_history(&mut rng, &w, &h);
        let mut trk = AnyTracker::new(&cfg);
        let mut life = Life::new(cfg.max_idle);
        rep.eval();
        rep.count(&format!("histories/{:?}", kind));
        // batch kinds, 35%: pipelined use - every batch is handed to a consumer thread started before predict and the
        // next batch is submitted while the previous one is still being drained; the contract is then checked on the
        // results taken in submission order
        if kind.is_batch() && rng.chance(0.5) {
            rep.count("histories/pipelined-consumer-thread");
            // seeded random delays at the voting / batch schedule points widen the windows between the pipeline stages
            if let Some(c) = &ctl {
                c.set_mode(Mode::Delay { seed: rng.u64(), intensity: 50, max_sleep_us: 1200 });
            }
            let batches: Vec<&Vec<(u64, Vec<Det>)>> = ops.iter().filter_map(|o| if let Op::Batch(b) = o { Some(b) } else { None }).collect();
            let pending: Vec<_> = batches.iter().map(|b| trk.submit_with_consumer(b)).collect();
            for (bi, (b, rx)) in batches.iter().zip(pending).enumerate() {
                let out = match rx.recv() {
                    Ok(o) => o,
                    Err(_) => {
                        rep.violation(&format!("C01/{:?}/pipelined/result-never-delivered", kind), idx, json!({"cfg": cfg.js(), "batch": bi}));
                        break;
                    }
                };
                let mut want: Vec<u64> = b.iter().map(|x| x.0).collect();
                let mut got: Vec<u64> = out.iter().map(|x| x.0).collect();
                want.sort();
                got.sort();
                if want != got {
                    rep.violation(&format!("C01/{:?}/batch-results-per-scene", kind), idx, json!({"cfg": cfg.js(), "batch": bi, "submitted": want, "received": got}));
                    break;
                }
                let mut bad = false;
                for (scene, recs) in &out {
                    let dets = &b.iter().find(|c| c.0 == *scene).unwrap().1;
                    for (sig, d) in life.on_predict(*scene, dets, recs, true) {
                        rep.violation(&format!("C01/{:?}/pipelined/{}", kind, sig), idx, json!({"cfg": cfg.js(), "batch": bi, "scene": scene, "detail": d, "records": recs.iter().map(|x| x.js()).collect::<Vec<_>>()}));
                        bad = true;
                    }
                    rep.add("records", recs.len() as u64);
                    rep.add("calls", 1);
                }
                if bad {
                    break;
                }
            }
            drop(trk);
            if let Some(c) = &ctl {
                c.finish();
            }
            continue;
        }
        let ctx = |call: usize, extra: Value| json!({"cfg": cfg.js(), "preset": w.preset, "call": call, "extra": extra});
        'hist: for (ci, op) in ops.iter().enumerate() {
            let calls: Vec<(u64, Vec<Det>)> = match op {
                Op::Predict { scene, dets } => vec![(*scene, dets.clone())],
                Op::Batch(b) => b.clone(),
                _ => continue,
            };
            let results: Vec<(u64, Vec<Rec>)> = if kind.is_batch() {
                let r = trk.predict_batch(&calls);
                // exactly one result per submitted scene
                let got: Vec<u64> = r.iter().map(|x| x.0).collect();
                let mut want: Vec<u64> = calls.iter().map(|x| x.0).collect();
                let mut g2 = got.clone();
                g2.sort();
                want.sort();
                if g2 != want {
                    rep.violation(&format!("C01/{:?}/batch-results-per-scene", kind), idx, ctx(ci, json!({"submitted": want, "received": got})));
                    break 'hist;
                }
                r
            } else {
                calls.iter().map(|(s, d)| (*s, trk.predict(*s, d))).collect()
            };
            rep.add("calls", results.len() as u64);
            for (scene, recs) in &results {
                let dets = &calls.iter().find(|c| c.0 == *scene).unwrap().1;
                let known_before: HashSet<u64> = life.tracks.keys().cloned().collect();
                let viol = life.on_predict(*scene, dets, recs, true);
                for (sig, d) in viol {
                    rep.violation(&format!("C01/{:?}/{}", kind, sig), idx, ctx(ci, json!({"scene": scene, "detail": d, "dets": dets.iter().map(|x| x.js()).collect::<Vec<_>>(), "records": recs.iter().map(|x| x.js()).collect::<Vec<_>>()})));
                }
                if rep.violations_total() > 0 {
                    break 'hist;
                }
                rep.add("records", recs.len() as u64);
                let cont = recs.iter().filter(|r| known_before.contains(&r.id)).count();
                rep.add("continuations", cont as u64);
                rep.add("new_tracks", (recs.len() - cont) as u64);
                if recs.is_empty() {
                    rep.count("empty_calls");
                }
                if recs.len() >= 2 && cont >= 1 && cont < recs.len() {
                    let mut hh = Hasher::new();
                    hh.u64(idx).u64(ci as u64);
                    for d in dets {
                        d.b.hash(&mut hh);
                    }
                    rep.nontrivial(hh.get());
                }
                if rep.want_sample() && recs.len() >= 2 && cont >= 1 {
                    rep.sample(json!({"cfg": cfg.js(), "scene": scene, "dets": dets.iter().map(|x| x.js()).collect::<Vec<_>>(), "records": recs.iter().map(|x| x.js()).collect::<Vec<_>>()}));
                }
            }
            // stored tracks agree with the records of this step
            let live: HashMap<u64, LiveTrack> = trk.live().into_iter().map(|t| (t.id, t)).collect();
            for (scene, recs) in &results {
                for r in recs {
                    match live.get(&r.id) {
                        None => {
                            rep.violation(&format!("C01/{:?}/record-without-stored-track", kind), idx, ctx(ci, r.js()));
                            break 'hist;
                        }
                        Some(t) => {
                            let ok = t.scene == *scene && t.last_epoch == r.epoch && t.length == r.length && t.custom == r.custom
                                && t.observed_hist.last().map(|b| b.same(&r.observed)).unwrap_or(false)
                                && t.predicted_hist.last().map(|b| b.same(&r.predicted)).unwrap_or(false)
                                && t.est.same(&r.predicted);
                            if !ok {
                                rep.violation(&format!("C01/{:?}/stored-track-disagrees-with-record", kind), idx, ctx(ci, json!({"record": r.js(), "stored": format!("{:?}", t)})));
                                break 'hist;
                            }
                            rep.count("stored_tracks_cross_checked");
                        }
                    }
                }
            }
        }
    }
    // ---- stress case (one per process): many voting threads, many scenes per batch, every detection starts a new
    // track in every batch, so that id allocation of different voting threads collides as often as possible
    if !cli.small && cli.replay_index.is_none() {
        for kind in [Kind::BatchSort, Kind::BatchVisual] {
            let mut rng = Rng::for_case(cli.seed, cli.shard, 1 << 40);
            let mut cfg = gen_cfg(&mut rng, kind);
            cfg.max_idle = 0;
            cfg.shards = 2;
            cfg.voting_shards = 8;
            cfg.constraints = None;
            cfg.vis.own_use = 0.0;
            cfg.vis.own_collect = 0.0;
            cfg.pos = PosMetric::IoU(0.3);
            let scenes = 48u64;
            let mut trk = AnyTracker::new(&cfg);
            let mut life = Life::new(0);
            let nb = if cli.thorough() { 400 } else { 90 };
            rep.count("stress_cases");
            'stress: for b in 0..nb {
                let batch: Vec<(u64, Vec<Det>)> = (0..scenes)
                    .map(|s| {
                        // boxes jump far every batch: nothing is ever continued
                        let dets = (0..2)
                            .map(|k| Det { b: DBox { xc: 100.0 + 500.0 * k as f32 + 97.0 * (b % 7) as f32, yc: 100.0 + 311.0 * ((b + k) % 5) as f32, angle: None, aspect: 0.5, h: 40.0, conf: 1.0 }, custom: Some((b * 1000 + k) as i64), feature: Some(vec![k as f32, 1.0]), quality: Some(1.0), truth: 0 })
                            .collect();
                        (s, dets)
                    })
                    .collect();
                let out = trk.predict_batch(&batch);
                for (scene, recs) in &out {
                    let dets = &batch.iter().find(|c| c.0 == *scene).unwrap().1;
                    for (sig, d) in life.on_predict(*scene, dets, recs, true) {
                        rep.violation(&format!("C01/{:?}/stress/{}", kind, sig), 1 << 40, json!({"batch": b, "scene": scene, "detail": d}));
                        break 'stress;
                    }
                    rep.add("stress_records", recs.len() as u64);
                }
                // tracks of the previous batch are expired now: hand them out so the stores stay small
                for w in trk.wasted() {
                    if let Some(m) = life.tracks.get_mut(&w.id) {
                        m.place = Place::HandedOut;
                    }
                }
            }
        }
    }
    rep.finish();
}
