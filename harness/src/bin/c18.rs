//! C18 — Python bindings are a faithful projection of the Rust API.
//! Generates JSON API scripts, interprets them against the Rust API directly, has harness/pydrv/driver.py
//! interpret the same scripts through the `similari` Python module built from the current tree, and compares
//! the two traces field by field.
use nalgebra::Point2;
use similari::prelude::*;
use similari::trackers::batch::PredictionBatchRequest;
use similari::trackers::sort::{SortTrack, VotingType, WastedSortTrack};
use similari::trackers::tracker_api::TrackerAPI;
use similari::trackers::visual_sort::batch_api::BatchVisualSort;
use similari::trackers::visual_sort::WastedVisualSortTrack;
use similari::utils::kalman::kalman_2d_box::{Universal2DBoxKalmanFilter, DIM_2D_BOX_X2};
use similari::utils::kalman::kalman_2d_point::{Point2DKalmanFilter, DIM_2D_POINT_X2};
use similari::utils::kalman::kalman_2d_point_vec::Vec2DKalmanFilter;
use similari::utils::kalman::KalmanState;
use std::collections::{BTreeMap, HashMap};
use vh::rng::Hasher;
use vh::{json, Cli, Report, Rng, Value};

enum Val {
    BB(BoundingBox),
    U(Universal2DBox),
    KfB(Universal2DBoxKalmanFilter),
    KfBS(KalmanState<DIM_2D_BOX_X2>),
    KfP(Point2DKalmanFilter),
    KfPS(KalmanState<DIM_2D_POINT_X2>),
    KfV(Vec2DKalmanFilter),
    KfVS(Vec<KalmanState<DIM_2D_POINT_X2>>),
    Stc(SpatioTemporalConstraints),
    Opts(VisualSortOptions),
    Sort(Sort),
    BSort(BatchSort),
    VSort(VisualSort),
    BVSort(BatchVisualSort),
}

fn f(v: &Value) -> f32 {
    v.as_f64().expect("float arg") as f32
}
fn fo(v: &Value) -> Option<f32> {
    if v.is_null() {
        None
    } else {
        Some(f(v))
    }
}
fn s(v: &Value) -> &str {
    v.as_str().expect("string arg")
}
fn jf(x: f32) -> Value {
    json!(x as f64)
}
fn ubox(u: &Universal2DBox) -> Value {
    json!([jf(u.xc), jf(u.yc), u.angle.map(|a| a as f64), jf(u.aspect), jf(u.height), jf(u.confidence)])
}
fn bbox(b: &BoundingBox) -> Value {
    json!([jf(b.left), jf(b.top), jf(b.width), jf(b.height), jf(b.confidence)])
}
fn track(t: &SortTrack, id: u64) -> Value {
    json!({"id": id, "epoch": t.epoch, "predicted": ubox(&t.predicted_bbox), "observed": ubox(&t.observed_bbox), "scene": t.scene_id, "length": t.length,
        "voting": match t.voting_type { VotingType::Visual => "Visual", VotingType::Positional => "Positional" }, "custom": t.custom_object_id})
}
fn squash(st: &str) -> String {
    let x: String = st.chars().filter(|c| !c.is_whitespace()).collect();
    x.replace(",}", "}").replace(",)", ")").replace(",]", "]")
}
fn pmetric(v: &Value) -> Option<PositionalMetricType> {
    if v.is_null() {
        None
    } else if s(&v[0]) == "maha" {
        Some(PositionalMetricType::Mahalanobis)
    } else {
        Some(PositionalMetricType::IoU(f(&v[1])))
    }
}

struct Interp {
    visual_records: u64,
    vars: HashMap<String, Val>,
    idmap: HashMap<String, HashMap<u64, u64>>,
}

impl Interp {
    fn u(&self, name: &Value) -> &Universal2DBox {
        match &self.vars[s(name)] {
            Val::U(u) => u,
            _ => panic!("not a Universal2DBox: {}", name),
        }
    }
    fn canon(&mut self, key: &str, id: u64) -> u64 {
        let m = self.idmap.entry(key.to_string()).or_default();
        let n = m.len() as u64 + 1;
        *m.entry(id).or_insert(n)
    }
    fn sort_kw(&self, kw: &Value) -> (usize, usize, usize, PositionalMetricType, f32, Option<SpatioTemporalConstraints>, f32, f32, usize, usize) {
        // documented defaults of the Python constructors
        let g = |k: &str| kw.get(k);
        let shards = g("shards").map(|v| v.as_u64().unwrap() as usize).unwrap_or(4);
        let dshards = g("distance_shards").map(|v| v.as_u64().unwrap() as usize).unwrap_or(4);
        let vshards = g("voting_shards").map(|v| v.as_u64().unwrap() as usize).unwrap_or(4);
        let hist = g("bbox_history").map(|v| v.as_u64().unwrap() as usize).unwrap_or(1);
        let idle = g("max_idle_epochs").map(|v| v.as_u64().unwrap() as usize).unwrap_or(5);
        let method = g("method").and_then(pmetric).unwrap_or(PositionalMetricType::Mahalanobis);
        let conf = g("min_confidence").map(f).unwrap_or(0.05);
        let stc = g("spatio_temporal_constraints").map(|v| match &self.vars[s(v)] {
            Val::Stc(c) => c.clone(),
            _ => panic!(),
        });
        let kp = g("kalman_position_weight").map(f).unwrap_or(1.0 / 20.0);
        let kv = g("kalman_velocity_weight").map(f).unwrap_or(1.0 / 160.0);
        (shards, hist, idle, method, conf, stc, kp, kv, dshards, vshards)
    }

    fn step(&mut self, step: &Value) -> Value {
        let op = s(&step[0]);
        let out = step[1].as_str().map(|x| x.to_string());
        let a: Vec<Value> = step.as_array().unwrap()[2..].to_vec();
        macro_rules! set {
            ($v:expr) => {{
                self.vars.insert(out.clone().unwrap(), $v);
            }};
        }
        macro_rules! var {
            ($i:expr, $p:path) => {
                match self.vars.get(s(&a[$i])) {
                    Some($p(x)) => x,
                    _ => panic!("wrong variable kind for {}", op),
                }
            };
        }
        macro_rules! var_mut {
            ($i:expr, $p:path) => {
                match self.vars.get_mut(s(&a[$i])) {
                    Some($p(x)) => x,
                    _ => panic!("wrong variable kind for {}", op),
                }
            };
        }
        match op {
            "bb_new" => {
                set!(Val::BB(BoundingBox::new(f(&a[0]), f(&a[1]), f(&a[2]), f(&a[3]))));
                Value::Null
            }
            "bb_new_conf" => {
                set!(Val::BB(BoundingBox::new_with_confidence(f(&a[0]), f(&a[1]), f(&a[2]), f(&a[3]), f(&a[4]))));
                Value::Null
            }
            "bb_get" => bbox(var!(0, Val::BB)),
            "bb_set" => {
                let b = var_mut!(0, Val::BB);
                match s(&a[1]) {
                    "left" => b.left = f(&a[2]),
                    "top" => b.top = f(&a[2]),
                    "width" => b.width = f(&a[2]),
                    "height" => b.height = f(&a[2]),
                    _ => b.confidence = f(&a[2]),
                }
                bbox(b)
            }
            "bb_as_xyaah" => {
                let u = var!(0, Val::BB).as_xyaah();
                let r = ubox(&u);
                set!(Val::U(u));
                r
            }
            "u_new" | "u_new_kw" => {
                set!(Val::U(Universal2DBox::new(f(&a[0]), f(&a[1]), fo(&a[2]), f(&a[3]), f(&a[4]))));
                Value::Null
            }
            "u_new_conf" => {
                set!(Val::U(Universal2DBox::new_with_confidence(f(&a[0]), f(&a[1]), fo(&a[2]), f(&a[3]), f(&a[4]), f(&a[5]))));
                Value::Null
            }
            "u_ltwh" => {
                set!(Val::U(Universal2DBox::ltwh(f(&a[0]), f(&a[1]), f(&a[2]), f(&a[3]))));
                Value::Null
            }
            "u_ltwh_conf" => {
                set!(Val::U(Universal2DBox::ltwh_with_confidence(f(&a[0]), f(&a[1]), f(&a[2]), f(&a[3]), f(&a[4]))));
                Value::Null
            }
            "u_get" => ubox(var!(0, Val::U)),
            "u_set" => {
                let u = var_mut!(0, Val::U);
                match s(&a[1]) {
                    "xc" => u.xc = f(&a[2]),
                    "yc" => u.yc = f(&a[2]),
                    "angle" => u.angle = fo(&a[2]),
                    "aspect" => u.aspect = f(&a[2]),
                    "height" => u.height = f(&a[2]),
                    _ => u.set_confidence(f(&a[2])),
                }
                ubox(u)
            }
            "u_rotate" => {
                let u = var_mut!(0, Val::U);
                u.rotate_mut(f(&a[1]));
                ubox(u)
            }
            "u_radius" => jf(var!(0, Val::U).get_radius()),
            "u_area" => jf(var!(0, Val::U).area()),
            "u_as_ltwh" => match BoundingBox::try_from(var!(0, Val::U)) {
                Ok(b) => bbox(&b),
                Err(_) => json!("error"),
            },
            "u_gen_vertices" => {
                let u = var_mut!(0, Val::U);
                u.gen_vertices();
                ubox(u)
            }
            "u_vertices" => {
                let p = var!(0, Val::U).get_vertices();
                json!(p.exterior().0.iter().map(|c| vec![c.x, c.y]).collect::<Vec<_>>())
            }
            "nms" | "nms_kw" => {
                let dets: Vec<(Universal2DBox, Option<f32>)> = a[0].as_array().unwrap().iter().map(|p| (self.u(&p[0]).clone(), fo(&p[1]))).collect();
                let r = similari::utils::nms::nms(&dets, f(&a[1]), fo(&a[2]));
                json!(r.iter().map(|b| ubox(b)).collect::<Vec<_>>())
            }
            "clip" => {
                let p = self.u(&a[0]).clone().sutherland_hodgman_clip(self.u(&a[1]).clone());
                // the Python side lists the closed ring (geo closes exterior rings)
                json!(p.exterior().0.iter().map(|c| vec![c.x, c.y]).collect::<Vec<_>>())
            }
            "intersection_area" => {
                let p = self.u(&a[0]).clone().sutherland_hodgman_clip(self.u(&a[1]).clone());
                let pts: Vec<(f64, f64)> = p.exterior().0.iter().map(|c| (c.x, c.y)).collect();
                json!(vh::geom::shoelace(&pts))
            }
            "version" => json!(repo_version()),
            // ---- Kalman
            "kfb_new" | "kfb_new_kw" => {
                let (p, v) = if a.is_empty() { (0.05, 0.00625) } else if a.len() == 1 { (f(&a[0]), 0.00625) } else { (f(&a[0]), f(&a[1])) };
                set!(Val::KfB(Universal2DBoxKalmanFilter::new(p, v)));
                Value::Null
            }
            "kfb_initiate" => {
                let st = var!(0, Val::KfB).initiate(self.u(&a[1]));
                set!(Val::KfBS(st));
                Value::Null
            }
            "kfb_predict" => {
                let st = var!(0, Val::KfB).predict(var!(1, Val::KfBS));
                set!(Val::KfBS(st));
                Value::Null
            }
            "kfb_update" => {
                let st = var!(0, Val::KfB).update(var!(1, Val::KfBS), self.u(&a[2]));
                set!(Val::KfBS(st));
                Value::Null
            }
            "kfb_distance" => jf(var!(0, Val::KfB).distance(*var!(1, Val::KfBS), self.u(&a[2]))),
            "kfb_cost" => jf(Universal2DBoxKalmanFilter::calculate_cost(f(&a[0]), a[1].as_bool().unwrap())),
            "kfb_state_ubox" => ubox(&Universal2DBox::try_from(*var!(0, Val::KfBS)).unwrap()),
            "kfb_state_bbox" => match BoundingBox::try_from(*var!(0, Val::KfBS)) {
                Ok(b) => bbox(&b),
                Err(_) => json!("error"),
            },
            "kfp_new" => {
                let (p, v) = if a.is_empty() { (0.05, 0.00625) } else if a.len() == 1 { (f(&a[0]), 0.00625) } else { (f(&a[0]), f(&a[1])) };
                set!(Val::KfP(Point2DKalmanFilter::new(p, v)));
                Value::Null
            }
            "kfp_initiate" => {
                let st = var!(0, Val::KfP).initiate(&Point2::from([f(&a[1]), f(&a[2])]));
                set!(Val::KfPS(st));
                Value::Null
            }
            "kfp_predict" => {
                let st = var!(0, Val::KfP).predict(var!(1, Val::KfPS));
                set!(Val::KfPS(st));
                Value::Null
            }
            "kfp_update" => {
                let st = var!(0, Val::KfP).update(var!(1, Val::KfPS), &Point2::from([f(&a[2]), f(&a[3])]));
                set!(Val::KfPS(st));
                Value::Null
            }
            "kfp_distance" => jf(var!(0, Val::KfP).distance(var!(1, Val::KfPS), &Point2::from([f(&a[2]), f(&a[3])]))),
            "kfp_cost" => jf(Point2DKalmanFilter::calculate_cost(f(&a[0]), a[1].as_bool().unwrap())),
            "kfp_state_xy" => {
                let p: Point2<f32> = Point2::from(*var!(0, Val::KfPS));
                json!([jf(p.x), jf(p.y)])
            }
            "kfv_new" => {
                let (p, v) = if a.is_empty() { (0.05, 0.00625) } else if a.len() == 1 { (f(&a[0]), 0.00625) } else { (f(&a[0]), f(&a[1])) };
                set!(Val::KfV(Vec2DKalmanFilter::new(p, v)));
                Value::Null
            }
            "kfv_initiate" => {
                let pts: Vec<Point2<f32>> = a[1].as_array().unwrap().iter().map(|p| Point2::from([f(&p[0]), f(&p[1])])).collect();
                let st = var!(0, Val::KfV).initiate(&pts);
                set!(Val::KfVS(st));
                Value::Null
            }
            "kfv_predict" => {
                let st = var!(0, Val::KfV).predict(var!(1, Val::KfVS));
                set!(Val::KfVS(st));
                Value::Null
            }
            "kfv_update" => {
                let pts: Vec<Point2<f32>> = a[2].as_array().unwrap().iter().map(|p| Point2::from([f(&p[0]), f(&p[1])])).collect();
                let st = var!(0, Val::KfV).update(var!(1, Val::KfVS), &pts);
                set!(Val::KfVS(st));
                Value::Null
            }
            "kfv_distance" => {
                let pts: Vec<Point2<f32>> = a[2].as_array().unwrap().iter().map(|p| Point2::from([f(&p[0]), f(&p[1])])).collect();
                json!(var!(0, Val::KfV).distance(var!(1, Val::KfVS), &pts).iter().map(|d| *d as f64).collect::<Vec<_>>())
            }
            "kfv_cost" => {
                let ds: Vec<f32> = a[0].as_array().unwrap().iter().map(f).collect();
                json!(Vec2DKalmanFilter::calculate_cost(&ds, a[1].as_bool().unwrap()).iter().map(|d| *d as f64).collect::<Vec<_>>())
            }
            "kfv_states_xy" => json!(var!(0, Val::KfVS).iter().map(|st| {
                let p: Point2<f32> = Point2::from(*st);
                vec![p.x as f64, p.y as f64]
            }).collect::<Vec<_>>()),
            // ---- constraints, metric types, options
            "stc_new" => {
                set!(Val::Stc(SpatioTemporalConstraints::new()));
                Value::Null
            }
            "stc_add" => {
                let v: Vec<(usize, f32)> = a[1].as_array().unwrap().iter().map(|p| (p[0].as_u64().unwrap() as usize, f(&p[1]))).collect();
                var_mut!(0, Val::Stc).add_constraints(v);
                Value::Null
            }
            "stc_validate" => json!(var!(0, Val::Stc).validate(a[1].as_u64().unwrap() as usize, f(&a[2]))),
            "vmetric_repr" => {
                let m = if s(&a[0]) == "euclidean" { VisualSortMetricType::euclidean(f(&a[1])) } else { VisualSortMetricType::cosine(f(&a[1])) };
                json!(squash(&format!("PyVisualSortMetricType({:?})", m)))
            }
            "pmetric_repr" => json!(squash(&format!("PyPositionalMetricType({:?})", pmetric(&a[0]).unwrap()))),
            "opts_new" => {
                set!(Val::Opts(VisualSortOptions::default()));
                Value::Null
            }
            "opts_set" => {
                let stc = if s(&a[1]) == "spatio_temporal_constraints" {
                    match &self.vars[s(&a[2])] {
                        Val::Stc(c) => Some(c.clone()),
                        _ => panic!(),
                    }
                } else {
                    None
                };
                let name = s(&a[1]).to_string();
                let val = a[2].clone();
                let o = match self.vars.remove(s(&a[0])) {
                    Some(Val::Opts(o)) => o,
                    _ => panic!(),
                };
                let n = |v: &Value| v.as_i64().unwrap() as usize;
                let o = match name.as_str() {
                    "max_idle_epochs" => o.max_idle_epochs(n(&val)),
                    "kept_history_length" => o.kept_history_length(n(&val)),
                    "visual_min_votes" => o.visual_min_votes(n(&val)),
                    "visual_metric" => o.visual_metric(if s(&val[0]) == "euclidean" { VisualSortMetricType::euclidean(f(&val[1])) } else { VisualSortMetricType::cosine(f(&val[1])) }),
                    "spatio_temporal_constraints" => o.spatio_temporal_constraints(stc.unwrap()),
                    "positional_metric" => o.positional_metric(pmetric(&val).unwrap()),
                    "visual_minimal_track_length" => o.visual_minimal_track_length(n(&val)),
                    "visual_minimal_area" => o.visual_minimal_area(f(&val)),
                    "visual_minimal_quality_use" => o.visual_minimal_quality_use(f(&val)),
                    "positional_min_confidence" => o.positional_min_confidence(f(&val)),
                    "visual_max_observations" => o.visual_max_observations(n(&val)),
                    "visual_minimal_quality_collect" => o.visual_minimal_quality_collect(f(&val)),
                    "visual_minimal_own_area_percentage_use" => o.visual_minimal_own_area_percentage_use(f(&val)),
                    "visual_minimal_own_area_percentage_collect" => o.visual_minimal_own_area_percentage_collect(f(&val)),
                    "kalman_position_weight" => o.kalman_position_weight(f(&val)),
                    "kalman_velocity_weight" => o.kalman_velocity_weight(f(&val)),
                    other => panic!("unknown option {}", other),
                };
                self.vars.insert(s(&a[0]).to_string(), Val::Opts(o));
                Value::Null
            }
            "opts_repr" => json!(squash(&format!("{:?}", var!(0, Val::Opts)))),
            // ---- trackers
            "sort_new" => {
                let (shards, hist, idle, method, conf, stc, kp, kv, _, _) = self.sort_kw(&a[0]);
                set!(Val::Sort(Sort::new(shards, hist, idle, method, conf, stc, kp, kv)));
                Value::Null
            }
            "bsort_new" => {
                let (_, hist, idle, method, conf, stc, kp, kv, ds, vs) = self.sort_kw(&a[0]);
                set!(Val::BSort(BatchSort::new(ds, vs, hist, idle, method, conf, stc, kp, kv)));
                Value::Null
            }
            "vsort_new" => {
                let o = var!(1, Val::Opts).clone();
                set!(Val::VSort(VisualSort::new(a[0].as_u64().unwrap() as usize, &o)));
                Value::Null
            }
            "bvsort_new" => {
                let o = var!(2, Val::Opts).clone();
                set!(Val::BVSort(BatchVisualSort::new(a[0].as_u64().unwrap() as usize, a[1].as_u64().unwrap() as usize, &o)));
                Value::Null
            }
            "predict" => {
                let scene = a[1].as_u64().unwrap_or(0);
                let dets = a[2].as_array().unwrap();
                let boxes: Vec<Universal2DBox> = dets.iter().map(|d| self.u(&d["box"]).clone()).collect();
                let customs: Vec<Option<i64>> = dets.iter().map(|d| d.get("custom").and_then(|c| c.as_i64())).collect();
                let feats: Vec<Option<Vec<f32>>> = dets.iter().map(|d| d.get("feature").and_then(|x| x.as_array()).map(|x| x.iter().map(f).collect())).collect();
                let quals: Vec<Option<f32>> = dets.iter().map(|d| d.get("quality").and_then(|q| q.as_f64()).map(|q| q as f32)).collect();
                let res = match self.vars.get_mut(s(&a[0])) {
                    Some(Val::Sort(t)) => {
                        let v: Vec<(Universal2DBox, Option<i64>)> = boxes.into_iter().zip(customs).collect();
                        t.predict_with_scene(scene, &v)
                    }
                    Some(Val::VSort(t)) => {
                        let v: Vec<VisualSortObservation> = (0..boxes.len()).map(|i| VisualSortObservation::new(feats[i].as_deref(), quals[i], boxes[i].clone(), customs[i])).collect();
                        t.predict_with_scene(scene, &v)
                    }
                    _ => panic!("predict on a non-simple tracker"),
                };
                self.visual_records += res.iter().filter(|t| matches!(t.voting_type, VotingType::Visual)).count() as u64;
                json!(res.iter().map(|t| track(t, t.id)).collect::<Vec<_>>())
            }
            // ("predict_batch_again": the Python side re-submits the SAME request object; its contents are unchanged, so this
            // side submits an identical fresh request)
            "predict_batch" | "predict_batch_again" => {
                let key = s(&a[0]).to_string();
                let batch = a[1].as_array().unwrap();
                let mut per_scene: Vec<(u64, Vec<SortTrack>)> = vec![];
                let n;
                let ready_after;
                // generic path without overlapping borrows
                let mut items: Vec<(u64, Universal2DBox, Option<i64>, Option<Vec<f32>>, Option<f32>)> = vec![];
                for sc in batch {
                    for d in sc[1].as_array().unwrap() {
                        items.push((
                            sc[0].as_u64().unwrap(),
                            self.u(&d["box"]).clone(),
                            d.get("custom").and_then(|c| c.as_i64()),
                            d.get("feature").and_then(|x| x.as_array()).map(|x| x.iter().map(f).collect()),
                            d.get("quality").and_then(|q| q.as_f64()).map(|q| q as f32),
                        ));
                    }
                }
                match self.vars.get_mut(&key) {
                    Some(Val::BSort(t)) => {
                        let (mut req, res) = PredictionBatchRequest::<(Universal2DBox, Option<i64>)>::new();
                        for (sc, b, c, _, _) in &items {
                            req.add(*sc, (b.clone(), *c));
                        }
                        t.predict(req);
                        n = res.batch_size();
                        for _ in 0..n {
                            per_scene.push(res.get());
                        }
                        ready_after = res.ready();
                    }
                    Some(Val::BVSort(t)) => {
                        let (mut req, res) = PredictionBatchRequest::<VisualSortObservation>::new();
                        for (sc, b, c, ft, q) in &items {
                            req.add(*sc, VisualSortObservation::new(ft.as_deref(), *q, b.clone(), *c));
                        }
                        t.predict(req);
                        n = res.batch_size();
                        for _ in 0..n {
                            per_scene.push(res.get());
                        }
                        ready_after = res.ready();
                    }
                    _ => panic!("predict_batch on a non-batch tracker"),
                }
                per_scene.sort_by_key(|x| x.0);
                let mut results = vec![];
                for (sc, tr) in &per_scene {
                    let recs: Vec<Value> = tr.iter().map(|t| {
                        let id = self.canon(&key, t.id);
                        track(t, id)
                    }).collect();
                    results.push(json!([sc, recs]));
                }
                let mut r = json!({"batch_size": n, "results": results, "ready_after": ready_after});
                if matches!(self.vars.get(&key), Some(Val::BVSort(_))) {
                    // the request object's own result handle: handed out once, sized by the number of scenes added
                    let mut req = similari::trackers::visual_sort::batch_api::VisualSortPredictionBatchRequest::new();
                    for (sc, b, c, ft, q) in &items {
                        req.add(*sc, VisualSortObservation::new(ft.as_deref(), *q, b.clone(), *c));
                    }
                    let p1 = req.prediction();
                    r["request_prediction"] = json!([p1.is_some(), p1.as_ref().map(|p| p.batch_size()), req.prediction().is_none()]);
                }
                r
            }
            "skip" => {
                let scene = a[1].as_u64().unwrap_or(0);
                let n = a[2].as_u64().unwrap() as usize;
                match self.vars.get_mut(s(&a[0])) {
                    Some(Val::Sort(t)) => t.skip_epochs_for_scene(scene, n),
                    Some(Val::BSort(t)) => t.skip_epochs_for_scene(scene, n),
                    Some(Val::VSort(t)) => t.skip_epochs_for_scene(scene, n),
                    Some(Val::BVSort(t)) => t.skip_epochs_for_scene(scene, n),
                    _ => panic!(),
                }
                Value::Null
            }
            "epoch" => {
                let scene = a[1].as_u64().unwrap_or(0);
                json!(match self.vars.get(s(&a[0])) {
                    Some(Val::Sort(t)) => t.current_epoch_with_scene(scene),
                    Some(Val::BSort(t)) => t.current_epoch_with_scene(scene),
                    Some(Val::VSort(t)) => t.current_epoch_with_scene(scene),
                    Some(Val::BVSort(t)) => t.current_epoch_with_scene(scene),
                    _ => panic!(),
                })
            }
            "shard_stats" => match self.vars.get(s(&a[0])) {
                Some(Val::Sort(t)) => json!(t.active_shard_stats()),
                Some(Val::VSort(t)) => json!(t.active_shard_stats()),
                Some(Val::BSort(t)) => json!({"shards": t.active_shard_stats().len(), "sum": t.active_shard_stats().iter().sum::<usize>()}),
                Some(Val::BVSort(t)) => json!({"shards": t.active_shard_stats().len(), "sum": t.active_shard_stats().iter().sum::<usize>()}),
                _ => panic!(),
            },
            "wasted" => {
                let key = s(&a[0]).to_string();
                let ws = |w: WastedSortTrack, id: u64| json!({"id": id, "epoch": w.epoch, "predicted": ubox(&w.predicted_bbox), "observed": ubox(&w.observed_bbox), "scene": w.scene_id, "length": w.length,
                    "predicted_boxes": w.predicted_boxes.iter().map(ubox).collect::<Vec<_>>(), "observed_boxes": w.observed_boxes.iter().map(ubox).collect::<Vec<_>>()});
                let wv = |w: WastedVisualSortTrack, id: u64| json!({"id": id, "epoch": w.epoch, "predicted": ubox(&w.predicted_bbox), "observed": ubox(&w.observed_bbox), "scene": w.scene_id, "length": w.length,
                    "predicted_boxes": w.predicted_boxes.iter().map(ubox).collect::<Vec<_>>(), "observed_boxes": w.observed_boxes.iter().map(ubox).collect::<Vec<_>>(),
                    "observed_features": w.observed_features.iter().map(|o| o.as_ref().map(|v| v.iter().map(|x| *x as f64).collect::<Vec<_>>())).collect::<Vec<_>>()});
                let mut v: Vec<(u64, Value)> = match self.vars.get_mut(&key) {
                    Some(Val::Sort(t)) => t.wasted().into_iter().map(WastedSortTrack::from).map(|w| (w.id, ws(w.clone(), w.id))).collect(),
                    Some(Val::VSort(t)) => t.wasted().into_iter().map(WastedVisualSortTrack::from).map(|w| (w.id, wv(w.clone(), w.id))).collect(),
                    Some(Val::BSort(t)) => {
                        let l: Vec<WastedSortTrack> = t.wasted().into_iter().map(WastedSortTrack::from).collect();
                        l.into_iter().map(|w| {
                            let id = self.canon(&key, w.id);
                            (id, ws(w, id))
                        }).collect()
                    }
                    Some(Val::BVSort(t)) => {
                        let l: Vec<WastedVisualSortTrack> = t.wasted().into_iter().map(WastedVisualSortTrack::from).collect();
                        l.into_iter().map(|w| {
                            let id = self.canon(&key, w.id);
                            (id, wv(w, id))
                        }).collect()
                    }
                    _ => panic!(),
                };
                v.sort_by_key(|x| x.0);
                json!(v.into_iter().map(|x| x.1).collect::<Vec<_>>())
            }
            "clear_wasted" => {
                match self.vars.get_mut(s(&a[0])) {
                    Some(Val::Sort(t)) => t.clear_wasted(),
                    Some(Val::BSort(t)) => t.clear_wasted(),
                    Some(Val::VSort(t)) => t.clear_wasted(),
                    Some(Val::BVSort(t)) => t.clear_wasted(),
                    _ => panic!(),
                }
                Value::Null
            }
            "idle" => {
                let key = s(&a[0]).to_string();
                let scene = a[1].as_u64().unwrap_or(0);
                let (l, batch): (Vec<SortTrack>, bool) = match self.vars.get_mut(&key) {
                    Some(Val::Sort(t)) => (t.idle_tracks_with_scene(scene), false),
                    Some(Val::VSort(t)) => (t.idle_tracks_with_scene(scene), false),
                    Some(Val::BSort(t)) => (t.idle_tracks_with_scene(scene), true),
                    Some(Val::BVSort(t)) => (t.idle_tracks_with_scene(scene), true),
                    _ => panic!(),
                };
                let mut v: Vec<(u64, Value)> = l.iter().map(|t| {
                    let id = if batch { self.canon(&key, t.id) } else { t.id };
                    (id, track(t, id))
                }).collect();
                v.sort_by_key(|x| x.0);
                json!(v.into_iter().map(|x| x.1).collect::<Vec<_>>())
            }
            "drop" => {
                self.vars.remove(s(&a[0]));
                Value::Null
            }
            other => json!(format!("unknown-op:{}", other)),
        }
    }
}

fn repo_version() -> String {
    let repo = std::env::args().find_map(|a| a.strip_prefix("repo=").map(|s| s.to_string())).unwrap_or_else(|| "/repo".to_string());
    let t = std::fs::read_to_string(format!("{}/Cargo.toml", repo)).unwrap_or_default();
    for l in t.lines() {
        if let Some(r) = l.strip_prefix("version = ") {
            return r.trim().trim_matches('"').to_string();
        }
    }
    String::new()
}

// ------------------------------------------------------------------------------------------------
// script generator

macro_rules! push {
    ($s:ident, $e:expr) => {{
        let __v = $e;
        $s.steps.push(__v);
    }};
}

struct Gen<'a> {
    rng: &'a mut Rng,
    steps: Vec<Value>,
    n: usize,
    /// the option object built last uses the cosine metric: empty (all-zero) feature vectors are outside its domain
    /// (cosine similarity of a zero vector is undefined), so none are generated for trackers built from it
    cosine: bool,
    /// every box of the detection list generated last has confidence 1
    last_conf1: bool,
}
impl<'a> Gen<'a> {
    fn name(&mut self, p: &str) -> String {
        self.n += 1;
        format!("{}{}", p, self.n)
    }
    fn fl(&mut self, lo: f64, hi: f64) -> Value {
        json!((self.rng.uniform(lo, hi) as f32) as f64)
    }
    fn ubox(&mut self, cx: f64, cy: f64) -> String {
        let v = self.name("u");
        let (x, y) = (json!(((cx + self.rng.uniform(-3.0, 3.0)) as f32) as f64), json!(((cy + self.rng.uniform(-3.0, 3.0)) as f32) as f64));
        let angle = if self.rng.chance(0.3) { self.fl(0.05, 3.0) } else { Value::Null };
        let (asp, h) = (self.fl(0.4, 1.6), self.fl(20.0, 50.0));
        match self.rng.usize(5) {
            0 => push!(self, json!(["u_new", v, x, y, angle, asp, h])),
            1 => push!(self, json!(["u_new_kw", v, x, y, angle, asp, h])),
            2 => {
                let c = self.fl(0.05, 1.0);
                push!(self, json!(["u_new_conf", v, x, y, angle, asp, h, c]))
            }
            3 => {
                let (w, hh) = (self.fl(10.0, 40.0), self.fl(20.0, 50.0));
                push!(self, json!(["u_ltwh", v, x, y, w, hh]))
            }
            _ => {
                let (w, hh, c) = (self.fl(10.0, 40.0), self.fl(20.0, 50.0), self.fl(0.05, 1.0));
                push!(self, json!(["u_ltwh_conf", v, x, y, w, hh, c]))
            }
        }
        v
    }
    fn geometry(&mut self) {
        let b = self.name("b");
        let (l, t, w, h) = (self.fl(-50.0, 50.0), self.fl(-50.0, 50.0), self.fl(1.0, 40.0), self.fl(1.0, 40.0));
        if self.rng.chance(0.5) {
            push!(self, json!(["bb_new", b, l, t, w, h]));
        } else {
            let c = self.fl(0.0, 1.0);
            push!(self, json!(["bb_new_conf", b, l, t, w, h, c]));
        }
        push!(self, json!(["bb_get", null, b]));
        let fld = *self.rng.pick(&["left", "top", "width", "height", "confidence"]);
        let val = if fld == "confidence" { self.fl(0.0, 1.0) } else { self.fl(1.0, 30.0) };
        push!(self, json!(["bb_set", null, b, fld, val]));
        let u = self.name("u");
        push!(self, json!(["bb_as_xyaah", u, b]));
        push!(self, json!(["u_as_ltwh", null, u]));
        let u2 = self.ubox(10.0, 10.0);
        let u3 = self.ubox(12.0, 11.0);
        push!(self, json!(["u_get", null, u2]));
        let fld = *self.rng.pick(&["xc", "yc", "angle", "aspect", "height", "confidence"]);
        let val = match fld {
            "confidence" => self.fl(0.0, 1.0),
            "angle" => {
                if self.rng.chance(0.3) {
                    Value::Null
                } else {
                    self.fl(0.0, 3.0)
                }
            }
            "aspect" => self.fl(0.3, 2.0),
            "height" => self.fl(10.0, 50.0),
            _ => self.fl(0.0, 30.0),
        };
        push!(self, json!(["u_set", null, u2, fld, val]));
        if self.rng.chance(0.6) {
            // rotating by exactly 0 is still "set the angle" (None becomes Some(0), a rotated box becomes unrotated)
            let a = match self.rng.usize(5) {
                0 => json!(0.0),
                1 => json!(-0.0),
                _ => self.fl(-3.0, 3.0),
            };
            push!(self, json!(["u_rotate", null, u3, a]));
            push!(self, json!(["u_as_ltwh", null, u3]));
            push!(self, json!(["u_vertices", null, u3]));
        }
        push!(self, json!(["u_radius", null, u2]));
        push!(self, json!(["u_area", null, u3]));
        push!(self, json!(["u_as_ltwh", null, u3]));
        push!(self, json!(["u_gen_vertices", null, u2]));
        push!(self, json!(["u_vertices", null, u2]));
        push!(self, json!(["clip", null, u2, u3]));
        push!(self, json!(["intersection_area", null, u3, u2]));
        // a box whose vertices were generated and which is then changed through its setters must be clipped in its new state
        if self.rng.chance(0.6) {
            let fld = *self.rng.pick(&["xc", "yc", "angle", "aspect", "height"]);
            let val = match fld {
                "angle" => self.fl(0.1, 3.0),
                "aspect" => self.fl(0.3, 2.0),
                "height" => self.fl(10.0, 50.0),
                _ => self.fl(0.0, 30.0),
            };
            push!(self, json!(["u_gen_vertices", null, u2]));
            push!(self, json!(["u_set", null, u2, fld, val]));
            push!(self, json!(["clip", null, u2, u3]));
            push!(self, json!(["intersection_area", null, u2, u3]));
            push!(self, json!(["intersection_area", null, u3, u2]));
        }
        // exactly touching boxes (shared edge, shared corner, a vertex on an edge): the clipped ring contains repeated
        // vertices, which get_points() must hand over as they are
        if self.rng.chance(0.3) {
            let (t1, t2) = (self.name("u"), self.name("u"));
            let (l, t, w, h) = (self.rng.range(0, 20) as f64, self.rng.range(0, 20) as f64, self.rng.range(1, 6) as f64 * 2.0, self.rng.range(1, 6) as f64 * 2.0);
            let (dx, dy) = match self.rng.usize(3) {
                0 => (w, 0.0),
                1 => (w, h),
                _ => (w, h / 2.0),
            };
            push!(self, json!(["u_ltwh", t1, l, t, w, h]));
            push!(self, json!(["u_ltwh", t2, l + dx, t + dy, w, h]));
            push!(self, json!(["clip", null, t1, t2]));
            push!(self, json!(["clip", null, t2, t1]));
            push!(self, json!(["intersection_area", null, t1, t2]));
        }
        // nms over a handful of boxes
        let all_none = self.rng.chance(0.2);
        let mut dets = vec![];
        for _ in 0..2 + self.rng.usize(5) {
            let v = self.ubox(40.0, 40.0);
            let sc = if all_none { Value::Null } else if self.rng.chance(0.7) { self.fl(0.0, 1.0) } else { Value::Null };
            dets.push(json!([v, sc]));
        }
        let thr = self.fl(0.1, 0.9);
        // score threshold: absent / inside the score range / in or above the range of the box heights (a box without a
        // score is ranked by its height but is never removed by the score filter)
        let st = match self.rng.usize(4) {
            0 => Value::Null,
            1 | 2 => self.fl(0.0, 0.8),
            _ => self.fl(15.0, 70.0),
        };
        let op = if self.rng.chance(0.5) { "nms" } else { "nms_kw" };
        push!(self, json!([op, null, dets, thr, st]));
        push!(self, json!(["version", null]));
    }
    fn kalman(&mut self) {
        let f = self.name("kf");
        match self.rng.usize(4) {
            0 => push!(self, json!(["kfb_new", f])),
            1 => {
                let p = self.fl(0.02, 0.2);
                push!(self, json!(["kfb_new", f, p]))
            }
            2 => {
                let (p, v) = (self.fl(0.02, 0.2), self.fl(0.002, 0.02));
                push!(self, json!(["kfb_new", f, p, v]))
            }
            _ => {
                let (p, v) = (self.fl(0.02, 0.2), self.fl(0.002, 0.02));
                push!(self, json!(["kfb_new_kw", f, p, v]))
            }
        }
        let u = self.ubox(100.0, 100.0);
        let mut st = self.name("st");
        push!(self, json!(["kfb_initiate", st, f, u]));
        for k in 0..2 + self.rng.usize(4) {
            let s2 = self.name("st");
            push!(self, json!(["kfb_predict", s2, f, st]));
            st = s2;
            let z = self.ubox(100.0 + 2.0 * k as f64, 100.0 + k as f64);
            push!(self, json!(["kfb_distance", null, f, st, z]));
            let s3 = self.name("st");
            push!(self, json!(["kfb_update", s3, f, st, z]));
            st = s3;
            push!(self, json!(["kfb_state_ubox", null, st]));
            push!(self, json!(["kfb_state_bbox", null, st]));
        }
        let d = self.fl(0.0, 20.0);
        let inv = self.rng.chance(0.5);
        push!(self, json!(["kfb_cost", null, d, inv]));
        // point filter
        let pf = self.name("pf");
        if self.rng.chance(0.5) {
            push!(self, json!(["kfp_new", pf]));
        } else {
            let (p, v) = (self.fl(0.02, 0.2), self.fl(0.002, 0.02));
            push!(self, json!(["kfp_new", pf, p, v]));
        }
        let mut ps = self.name("ps");
        let (x, y) = (self.fl(0.0, 10.0), self.fl(0.0, 10.0));
        push!(self, json!(["kfp_initiate", ps, pf, x, y]));
        for _ in 0..1 + self.rng.usize(3) {
            let p2 = self.name("ps");
            push!(self, json!(["kfp_predict", p2, pf, ps]));
            let (x, y) = (self.fl(0.0, 10.0), self.fl(0.0, 10.0));
            push!(self, json!(["kfp_distance", null, pf, p2, x, y]));
            let p3 = self.name("ps");
            push!(self, json!(["kfp_update", p3, pf, p2, x, y]));
            ps = p3;
            push!(self, json!(["kfp_state_xy", null, ps]));
        }
        let d = self.fl(0.0, 14.0);
        let inv = self.rng.chance(0.5);
        push!(self, json!(["kfp_cost", null, d, inv]));
        // vector filter
        let vf = self.name("vf");
        push!(self, json!(["kfv_new", vf]));
        // (one episode in sixteen uses a long point vector: every element must still be the result for that element, in order)
        let n = if self.rng.chance(1.0 / 16.0) { *self.rng.pick(&[1024usize, 1025, 2048, 3000]) } else { 1 + self.rng.usize(3) };
        let pts = |g: &mut Gen| json!((0..n).map(|_| vec![g.fl(0.0, 10.0), g.fl(0.0, 10.0)]).collect::<Vec<_>>());
        let mut vs = self.name("vs");
        let p0 = pts(self);
        push!(self, json!(["kfv_initiate", vs, vf, p0]));
        let v2 = self.name("vs");
        push!(self, json!(["kfv_predict", v2, vf, vs]));
        vs = v2;
        let p1 = pts(self);
        push!(self, json!(["kfv_distance", null, vf, vs, p1]));
        let v3 = self.name("vs");
        push!(self, json!(["kfv_update", v3, vf, vs, p1]));
        push!(self, json!(["kfv_states_xy", null, v3]));
        let ds = json!((0..3).map(|_| self.fl(0.0, 14.0)).collect::<Vec<_>>());
        push!(self, json!(["kfv_cost", null, ds, self.rng.chance(0.5)]));
    }
    fn constraints(&mut self) -> String {
        let c = self.name("c");
        push!(self, json!(["stc_new", c]));
        for _ in 0..1 + self.rng.usize(2) {
            let v = json!((0..1 + self.rng.usize(3)).map(|_| json!([self.rng.usize(5), self.fl(0.2, 3.0)])).collect::<Vec<_>>());
            push!(self, json!(["stc_add", null, c, v]));
        }
        for _ in 0..3 {
            let d = self.fl(0.0, 3.0);
            push!(self, json!(["stc_validate", null, c, self.rng.usize(6), d]));
        }
        c
    }
    fn metric(&mut self) -> Value {
        if self.rng.chance(0.5) {
            json!(["maha"])
        } else {
            json!(["iou", *self.rng.pick(&[0.1f64, 0.3, 0.5])])
        }
    }
    /// An EMPTY feature vector is a real (zero-padded) feature, not "no feature". One object alone (no ties possible),
    /// Euclidean metric, minimal track length 1: the object jumps far away between frames, so only the appearance vote
    /// (distance 0 between the two empty features) can keep its track; the wasted track reports the stored feature.
    fn empty_feature_episode(&mut self, batch: bool) {
        let o = self.name("o");
        push!(self, json!(["opts_new", o]));
        push!(self, json!(["opts_set", null, o, "visual_minimal_track_length", 1]));
        push!(self, json!(["opts_set", null, o, "max_idle_epochs", 2]));
        let t = self.name("t");
        if batch {
            push!(self, json!(["bvsort_new", t, 1, 1, o]));
        } else {
            push!(self, json!(["vsort_new", t, 1 + self.rng.usize(2), o]));
        }
        for k in 0..3 {
            let b = self.name("u");
            let (x, y) = (100.0 + 400.0 * k as f64 + self.rng.range(0, 9) as f64, 100.0 + 250.0 * (k % 2) as f64);
            push!(self, json!(["u_new", b, x, y, null, 0.5, 40.0]));
            let det = json!([{"box": b, "custom": 7 + k, "feature": Vec::<f64>::new(), "quality": 1.0}]);
            if batch {
                push!(self, json!(["predict_batch", null, t, [[0, det]]]));
            } else {
                push!(self, json!(["predict", null, t, 0, det]));
            }
        }
        push!(self, json!(["skip", null, t, 0, 5]));
        push!(self, json!(["wasted", null, t]));
    }
    fn options(&mut self) -> String {
        let o = self.name("o");
        self.cosine = false;
        push!(self, json!(["opts_new", o]));
        push!(self, json!(["opts_repr", null, o]));
        let all = ["max_idle_epochs", "kept_history_length", "visual_min_votes", "visual_metric", "spatio_temporal_constraints", "positional_metric", "visual_minimal_track_length", "visual_minimal_area",
            "visual_minimal_quality_use", "positional_min_confidence", "visual_max_observations", "visual_minimal_quality_collect", "visual_minimal_own_area_percentage_use", "visual_minimal_own_area_percentage_collect",
            "kalman_position_weight", "kalman_velocity_weight"];
        let mut names: Vec<&str> = all.to_vec();
        self.rng.shuffle(&mut names);
        let k = 3 + self.rng.usize(all.len() - 2);
        let mut chosen: Vec<&str> = names.into_iter().take(k).collect();
        // most option objects make appearance voting reachable within a short history and put the quality gates
        // inside the range of the generated qualities
        if self.rng.chance(0.8) {
            for must in ["visual_minimal_track_length", "visual_minimal_quality_use", "visual_minimal_quality_collect", "visual_metric", "max_idle_epochs"] {
                if !chosen.contains(&must) {
                    chosen.push(must);
                }
            }
        }
        // a third of the option objects are configured the way interactive code does it: some setters are called again
        // later with another value (the last call wins, every other option keeps its value)
        let mut order: Vec<&str> = chosen.clone();
        if self.rng.chance(0.35) {
            for _ in 0..1 + self.rng.usize(4) {
                let again = *self.rng.pick(&["visual_max_observations", "visual_max_observations", "visual_minimal_track_length", "visual_min_votes", "max_idle_epochs", "kept_history_length", "visual_minimal_quality_use", "positional_min_confidence"]);
                let at = self.rng.usize(order.len() + 1);
                order.insert(at, again);
            }
        }
        let (mut cur_len, mut cur_max) = (3usize, 5usize);
        let n_order = order.len();
        for (pos, name) in order.into_iter().enumerate() {
            let _ = (pos, n_order);
            let val = match name {
                "max_idle_epochs" => json!(1 + self.rng.usize(5)),
                "kept_history_length" => json!(1 + self.rng.usize(6)),
                "visual_min_votes" => json!(1 + self.rng.usize(3)),
                "visual_metric" => {
                    if self.rng.chance(0.5) {
                        self.cosine = false;
                        json!(["euclidean", *self.rng.pick(&[0.25f64, 0.5, 1.0])])
                    } else {
                        self.cosine = true;
                        json!(["cosine", *self.rng.pick(&[0.5f64, 0.75, 0.875])])
                    }
                }
                "spatio_temporal_constraints" => {
                    let c = self.constraints();
                    json!(c)
                }
                "positional_metric" => self.metric(),
                "visual_minimal_track_length" => {
                    let span = if self.rng.chance(0.8) { 2 } else { 4 };
                    cur_len = 1 + self.rng.usize(span);
                    json!(cur_len)
                }
                "visual_minimal_area" => json!(*self.rng.pick(&[0.0f64, 100.0, 400.0])),
                "visual_minimal_quality_use" => json!(*self.rng.pick(&[0.25f64, 0.5, 0.5])),
                "positional_min_confidence" => json!(*self.rng.pick(&[0.0625f64, 0.125, 0.25])),
                "visual_max_observations" => {
                    // may transiently be smaller than the minimal track length; only the final pair has to be consistent
                    cur_max = if self.rng.chance(0.75) { 3 + self.rng.usize(4) } else { 1 + self.rng.usize(10) };
                    json!(cur_max)
                }
                "visual_minimal_quality_collect" => json!(*self.rng.pick(&[0.0f64, 0.5, 0.75])),
                "visual_minimal_own_area_percentage_use" => json!(*self.rng.pick(&[0.0f64, 0.25])),
                "visual_minimal_own_area_percentage_collect" => json!(*self.rng.pick(&[0.0f64, 0.25])),
                "kalman_position_weight" => json!(*self.rng.pick(&[0.05f32 as f64, 0.0625, 0.125])),
                _ => json!(*self.rng.pick(&[0.00625f32 as f64, 0.0078125, 0.015625])),
            };
            push!(self, json!(["opts_set", null, o, name, val]));
            if self.rng.chance(0.15) {
                push!(self, json!(["opts_repr", null, o]));
            }
        }
        if cur_len > cur_max {
            // make the pair consistent again through the setter of the larger one only
            cur_max = cur_len + self.rng.usize(3);
            push!(self, json!(["opts_set", null, o, "visual_max_observations", cur_max]));
        }
        push!(self, json!(["opts_repr", null, o]));
        let m = if self.rng.chance(0.5) { json!(["vmetric_repr", null, "euclidean", 1.5]) } else { json!(["vmetric_repr", null, "cosine", 0.5]) };
        push!(self, m);
        let pm = self.metric();
        push!(self, json!(["pmetric_repr", null, pm]));
        o
    }
    fn dets(&mut self, objs: &mut Vec<(f64, f64, Vec<f32>)>, visual: bool) -> Value {
        let mut v = vec![];
        self.last_conf1 = true;
        for (k, o) in objs.iter_mut().enumerate() {
            o.0 += 3.0;
            o.1 += 1.0;
            if self.rng.chance(0.15) {
                continue;
            }
            let (x, y) = (o.0, o.1);
            let b = self.name("u");
            let (xx, yy, asp, h) = (json!(((x + self.rng.uniform(-0.5, 0.5)) as f32) as f64), json!(((y + self.rng.uniform(-0.5, 0.5)) as f32) as f64), json!(0.5 + 0.125 * (k % 4) as f64), json!(40.0 + k as f64));
            if self.rng.chance(0.2) {
                let c = self.fl(0.3, 1.0);
                self.last_conf1 = false;
                push!(self, json!(["u_new_conf", b, xx, yy, null, asp, h, c]));
            } else {
                push!(self, json!(["u_new", b, xx, yy, null, asp, h]));
            }
            let mut d = serde_json::Map::new();
            d.insert("box".into(), json!(b));
            if self.rng.chance(0.7) {
                d.insert("custom".into(), json!(self.rng.range(-5, 1000)));
            }
            if visual {
                if self.rng.chance(0.85) {
                    let ft: Vec<f64> = o.2.iter().map(|p| ((*p as f64 + self.rng.normal() * 0.02) as f32) as f64).collect();
                    d.insert("feature".into(), json!(ft));
                }
                if self.rng.chance(0.8) {
                    d.insert("quality".into(), json!(*self.rng.pick(&[0.125f64, 0.25, 0.5, 0.75, 1.0])));
                }
            }
            v.push(Value::Object(d));
        }
        json!(v)
    }
    fn tracker(&mut self) {
        let kind = self.rng.usize(4);
        let t = self.name("t");
        let visual = kind >= 2;
        let batch = kind % 2 == 1;
        if !visual {
            let mut kw = serde_json::Map::new();
            let keys: Vec<&str> = if batch { vec!["distance_shards", "voting_shards", "bbox_history", "max_idle_epochs", "method", "min_confidence", "spatio_temporal_constraints", "kalman_position_weight", "kalman_velocity_weight"] } else { vec!["shards", "bbox_history", "max_idle_epochs", "method", "min_confidence", "spatio_temporal_constraints", "kalman_position_weight", "kalman_velocity_weight"] };
            for k in keys {
                if !self.rng.chance(0.6) {
                    continue; // omitted => the documented default applies
                }
                let v = match k {
                    "shards" | "distance_shards" | "voting_shards" => json!(1 + self.rng.usize(3)),
                    "bbox_history" => json!(1 + self.rng.usize(4)),
                    "max_idle_epochs" => json!(self.rng.usize(4)),
                    "method" => self.metric(),
                    "min_confidence" => json!(*self.rng.pick(&[0.0625f64, 0.25])),
                    "spatio_temporal_constraints" => {
                        let c = self.constraints();
                        json!(c)
                    }
                    "kalman_position_weight" => json!(*self.rng.pick(&[0.05f32 as f64, 0.0625])),
                    _ => json!(*self.rng.pick(&[0.00625f32 as f64, 0.0078125])),
                };
                kw.insert(k.to_string(), v);
            }
            push!(self, json!([if batch { "bsort_new" } else { "sort_new" }, t, Value::Object(kw)]));
        } else {
            let o = self.options();
            if batch {
                push!(self, json!(["bvsort_new", t, 1 + self.rng.usize(2), 1 + self.rng.usize(2), o]));
            } else {
                push!(self, json!(["vsort_new", t, 1 + self.rng.usize(3), o]));
            }
        }
        let nscenes = 1 + self.rng.usize(2);
        let mut worlds: Vec<Vec<(f64, f64, Vec<f32>)>> = (0..nscenes).map(|_| (0..1 + self.rng.usize(3)).map(|k| (100.0 + 150.0 * k as f64, 100.0 + 90.0 * k as f64, vec![k as f32, 1.0 - k as f32 * 0.5, 0.25])).collect()).collect();
        let nops = if visual { 10 + self.rng.usize(14) } else { 5 + self.rng.usize(8) };
        for _ in 0..nops {
            let choice = self.rng.usize(12);
            if choice == 0 {
                // a skip is always followed by the observers that could see a difference
            }
            match choice {
                0 => {
                    let sc = if self.rng.chance(0.5) { Value::Null } else { json!(self.rng.usize(nscenes)) };
                    push!(self, json!(["skip", null, t, sc, 1 + self.rng.usize(5)]));
                    push!(self, json!(["shard_stats", null, t]));
                    push!(self, json!(["epoch", null, t, sc]));
                    if self.rng.chance(0.5) {
                        push!(self, json!(["idle", null, t, sc]));
                    }
                }
                1 => push!(self, json!(["wasted", null, t])),
                2 => {
                    let sc = if self.rng.chance(0.5) { Value::Null } else { json!(self.rng.usize(nscenes)) };
                    push!(self, json!(["idle", null, t, sc]));
                }
                3 => push!(self, json!(["shard_stats", null, t])),
                4 => {
                    let sc = if self.rng.chance(0.5) { Value::Null } else { json!(self.rng.usize(nscenes)) };
                    push!(self, json!(["epoch", null, t, sc]));
                }
                5 => {
                    if self.rng.chance(0.3) {
                        push!(self, json!(["clear_wasted", null, t]));
                    }
                }
                _ => {
                    if batch {
                        let mut b = vec![];
                        let mut all_conf1 = true;
                        for sc in 0..nscenes {
                            if self.rng.chance(0.8) {
                                let d = self.dets(&mut worlds[sc], visual);
                                all_conf1 &= self.last_conf1;
                                if !d.as_array().unwrap().is_empty() {
                                    b.push(json!([sc, d]));
                                }
                            }
                        }
                        if !b.is_empty() {
                            push!(self, json!(["predict_batch", null, t, b]));
                            // a request object is a value: submitting it again tracks the same boxes again. (Only with full
                            // confidences: a low-confidence box may fail to continue its own track, and the duplicate track it
                            // starts at the same place makes the next frame an exact tie.)
                            if !visual && all_conf1 && self.rng.chance(0.2) {
                                push!(self, json!(["predict_batch_again", null, t, b]));
                            }
                        }
                    } else {
                        let sc = self.rng.usize(nscenes);
                        let d = self.dets(&mut worlds[sc], visual);
                        // scene None = the scene-less entry point (scene 0)
                        let scv = if sc == 0 && self.rng.chance(0.5) { Value::Null } else { json!(sc) };
                        push!(self, json!(["predict", null, t, scv, d]));
                    }
                }
            }
        }
        push!(self, json!(["wasted", null, t]));
        push!(self, json!(["epoch", null, t, null]));
        push!(self, json!(["shard_stats", null, t]));
        push!(self, json!(["drop", null, t]));
    }
}

fn gen_script(rng: &mut Rng) -> Vec<Value> {
    let mut g = Gen { rng, steps: vec![], n: 0, cosine: false, last_conf1: true };
    let mut parts: Vec<u8> = vec![0, 1, 2, 3, 3];
    g.rng.shuffle(&mut parts);
    let k = 2 + g.rng.usize(3);
    for p in parts.into_iter().take(k) {
        match p {
            0 => g.geometry(),
            1 => g.kalman(),
            2 => {
                g.options();
            }
            _ => g.tracker(),
        }
    }
    if g.rng.chance(0.2) {
        let batch = g.rng.chance(0.5);
        g.empty_feature_episode(batch);
    }
    g.steps
}

fn approx_eq(a: &Value, b: &Value, path: &str) -> Option<String> {
    match (a, b) {
        (Value::Number(x), Value::Number(y)) => {
            if x.is_f64() || y.is_f64() {
                let (p, q) = (x.as_f64().unwrap(), y.as_f64().unwrap());
                if (p - q).abs() <= 1e-6 * p.abs().max(q.abs()) + 1e-9 {
                    None
                } else {
                    Some(format!("{}: {} vs {}", path, p, q))
                }
            } else if x == y {
                None
            } else {
                Some(format!("{}: {} vs {}", path, x, y))
            }
        }
        (Value::Array(x), Value::Array(y)) => {
            if x.len() != y.len() {
                return Some(format!("{}: lengths {} vs {}", path, x.len(), y.len()));
            }
            for (i, (p, q)) in x.iter().zip(y.iter()).enumerate() {
                if let Some(e) = approx_eq(p, q, &format!("{}[{}]", path, i)) {
                    return Some(e);
                }
            }
            None
        }
        (Value::Object(x), Value::Object(y)) => {
            let kx: Vec<&String> = x.keys().collect();
            let ky: Vec<&String> = y.keys().collect();
            if kx != ky {
                return Some(format!("{}: keys {:?} vs {:?}", path, kx, ky));
            }
            for k in kx {
                if let Some(e) = approx_eq(&x[k], &y[k], &format!("{}.{}", path, k)) {
                    return Some(e);
                }
            }
            None
        }
        _ => {
            if a == b {
                None
            } else {
                Some(format!("{}: {} vs {}", path, a.to_string().chars().take(120).collect::<String>(), b.to_string().chars().take(120).collect::<String>()))
            }
        }
    }
}

fn main() {
    let cli = Cli::parse();
    let mut rep = Report::new("C18", &cli);
    rep.note("rule", json!("case = generated API script (2..4 sections out of: geometry [BoundingBox / Universal2DBox constructors, getters, setters, conversions, rotate, vertices, NMS, clipping, intersection area], Kalman [box / point / vector filters: initiate, predict, update, distance, state accessors, calculate_cost, default and explicit weights], options [every VisualSortOptions setter, repr], trackers [Sort / BatchSort / VisualSort / BatchVisualSort with keyword arguments randomly omitted so that documented defaults apply; predict with and without scene, batches, skip, epochs, idle, wasted, clear, shard stats]). The script is executed once by harness/pydrv/driver.py through `import similari` (cdylib built from the current tree) and once by this Rust interpreter calling the wrapped Rust API directly; the two traces are compared field by field (ints / bools / None / enum names exactly, floats to 1e-6 relative, batch-tracker ids after canonical renaming). A per-method coverage table is reported and a registered method that was never exercised makes the run inconclusive. Non-trivial: every script (distinct by script hash)."));
    rep.note("assumptions", json!(["documented defaults: Sort(shards=4, bbox_history=1, max_idle_epochs=5, method=Mahalanobis, min_confidence=0.05, no constraints, kalman weights 1/20 and 1/160), BatchSort(distance_shards=4, voting_shards=4, ...), Kalman filters (0.05, 0.00625)", "Python wrapper panics surface as exceptions; scripts are generated so that no call is expected to fail"]));
    let moddir = cli.param_str("moddir").unwrap_or("/verif/target/py/mod").to_string();
    let driver = cli.param_str("driver").unwrap_or("/verif/harness/pydrv/driver.py").to_string();
    let rundir = cli.param_str("rundir").unwrap_or("/verif/target/run/C18").to_string();
    let n = cli.cases(240, 5000);
    let mut scripts: Vec<(u64, Vec<Value>)> = vec![];
    for idx in cli.index_range(n) {
        let mut rng = Rng::for_case(cli.seed, cli.shard, idx);
        scripts.push((idx, gen_script(&mut rng)));
    }
    // Python side
    std::fs::create_dir_all(&rundir).ok();
    let sfile = format!("{}/scripts_{}.json", rundir, cli.shard);
    let tfile = format!("{}/traces_{}.json", rundir, cli.shard);
    std::fs::write(&sfile, serde_json::to_string(&scripts.iter().map(|s| &s.1).collect::<Vec<_>>()).unwrap()).unwrap();
    let _ = std::fs::remove_file(&tfile);
    let mut cmd = std::process::Command::new("python3");
    cmd.arg(&driver).arg(&moddir).arg(&sfile).arg(&tfile);
    if let Some(pre) = cli.param_str("valgrind") {
        // E5: valgrind memcheck around CPython + similari.so
        let log = format!("{}/valgrind_{}.log", rundir, cli.shard);
        cmd = std::process::Command::new("valgrind");
        cmd.arg("--num-callers=30").arg(format!("--log-file={}", log)).arg("--error-exitcode=0").arg("python3").arg(&driver).arg(&moddir).arg(&sfile).arg(&tfile);
        cmd.env("PYTHONMALLOC", "malloc");
        let _ = pre;
    }
    let st = cmd.status();
    let py: Value = match std::fs::read_to_string(&tfile).ok().and_then(|t| serde_json::from_str(&t).ok()) {
        Some(v) => v,
        None => {
            rep.inconclusive(&format!("python driver produced no trace (status {:?})", st));
            rep.finish();
        }
    };
    let traces = py["traces"].as_array().unwrap();
    // Rust side + comparison
    for (k, (idx, script)) in scripts.iter().enumerate() {
        rep.eval();
        let mut it = Interp { visual_records: 0, vars: HashMap::new(), idmap: HashMap::new() };
        let mut rtrace = vec![];
        for st in script {
            let r = std::panic::catch_unwind(std::panic::AssertUnwindSafe(|| it.step(st)));
            rtrace.push(match r {
                Ok(v) => v,
                Err(_) => json!({"exception": "panic"}),
            });
        }
        let ptrace = traces[k].as_array().unwrap();
        rep.add("steps_compared", script.len() as u64);
        rep.add("records_with_visual_voting", it.visual_records);
        for (i, st) in script.iter().enumerate() {
            let (pv, rv) = (&ptrace[i], &rtrace[i]);
            let both_exc = pv.get("exception").is_some() && rv.get("exception").is_some();
            if both_exc {
                rep.count("steps_failing_on_both_sides");
                continue;
            }
            if let Some(e) = approx_eq(pv, rv, "") {
                let op = st[0].as_str().unwrap();
                rep.violation(&format!("C18/{}", op), *idx, json!({"step_index": i, "step": st, "difference(python vs rust)": e, "python": pv.to_string().chars().take(700).collect::<String>(), "rust": rv.to_string().chars().take(700).collect::<String>(),
                    "script_prefix": script.iter().take(i + 1).rev().take(12).rev().collect::<Vec<_>>()}));
                break;
            }
        }
        let mut hh = Hasher::new();
        hh.str(&serde_json::to_string(script).unwrap());
        rep.nontrivial(hh.get());
        if rep.want_sample() {
            rep.sample(json!({"script_first_steps": script.iter().take(10).collect::<Vec<_>>(), "steps": script.len(), "python_trace_first": ptrace.iter().take(10).collect::<Vec<_>>()}));
        }
    }
    // coverage table
    let cov: BTreeMap<String, u64> = py["coverage"].as_object().unwrap().iter().map(|(k, v)| (k.clone(), v.as_u64().unwrap())).collect();
    for (k, v) in &cov {
        rep.add(&format!("api/{}", k), *v);
    }
    rep.finish();
}
