//! C10 — distance queries are exact and schedule independent.
use similari::prelude::TrackStoreBuilder;
use similari::store::TrackStore;
use similari::track::Track;
use similari::Errors;
use std::sync::Arc;
use vh::rng::Hasher;
use vh::sched::{order_signature, with_caller_positions, worker_interleavings, Controller, Mode, Token};
use vh::storemodel::*;
use vh::{json, Cli, Report, Rng, Value};

type Store = TrackStore<WAttrs, WMetric, WObs, CountingNotifier>;

#[derive(Clone, Debug)]
struct Spec {
    id: u64,
    compat: u8,
    counter: i64,
    obs: Vec<(u64, Option<f32>, Option<Vec<f32>>)>,
}

struct Env {
    plan: Arc<FaultPlan>,
    notif: CountingNotifier,
}

fn lib_track(env: &Env, s: &Spec) -> WTrack {
    let mut t: WTrack = Track::new(s.id, WMetric { state: 0, plan: env.plan.clone() }, WAttrs::new(s.compat, 8, env.plan.clone()), env.notif.clone());
    if s.counter != 0 {
        t.add_observation(0, None, None, Some(WUpdate { delta: s.counter, set_compat: None })).unwrap();
    }
    for (c, oa, f) in &s.obs {
        t.add_observation(*c, oa.map(WObs), f.as_ref().map(|v| mk_feature(v)), None).unwrap();
    }
    t
}

fn gen_spec(rng: &mut Rng, id: u64, nclasses: usize) -> Spec {
    let mut obs = vec![];
    for _ in 0..(if rng.chance(0.15) { 0 } else { 1 + rng.usize(3) }) {
        let oa = if rng.chance(0.7) { Some(rng.usize(90) as f32 / 10.0) } else { None };
        // (a fifth of the features are long: 9..17 components, i.e. more SIMD blocks than the short ones - distances are defined on the common prefix)
        let f = if rng.chance(0.6) { Some((0..if rng.chance(0.2) { 9 + rng.usize(9) } else { 1 + rng.usize(2) }).map(|_| rng.usize(10) as f32).collect()) } else { None };
        obs.push((rng.usize(nclasses.max(1)) as u64, oa, f));
    }
    Spec { id, compat: 1 + rng.usize(2) as u8, counter: rng.range(0, 3), obs }
}

type Row = (u64, u64, Option<u32>, Option<u32>);

/// reference enumeration: what the query must return for candidate `c` over the stored tracks
fn reference(cands: &[Snap], stored: &[Snap], cls: u64, only_baked: bool, post_min: bool) -> (Vec<Row>, Vec<(u64, u64, u64)>) {
    let mut ok = vec![];
    let mut err = vec![];
    for c in cands {
        for t in stored {
            if t.id == c.id {
                continue;
            }
            if only_baked && t.attrs.1.rem_euclid(4) != 1 {
                continue;
            }
            if c.attrs.0 != t.attrs.0 {
                continue; // incompatible: silently skipped
            }
            match (c.obs.get(&cls), t.obs.get(&cls)) {
                (Some(l), Some(r)) => {
                    let first = ok.len();
                    for lo in l {
                        for ro in r {
                            let am = match (lo.0, ro.0) {
                                (Some(a), Some(b)) => Some((a - b).abs()),
                                _ => None,
                            };
                            let fd = match (&lo.1, &ro.1) {
                                (Some(x), Some(y)) => Some(similari::distance::euclidean(&mk_feature(x), &mk_feature(y)) + c.metric_state as f32 * 1000.0),
                                _ => None,
                            };
                            if matches!(am, Some(d) if d > 6.0) {
                                continue; // the metric yields no value for clearly different observations
                            }
                            ok.push((c.id, t.id, am.map(|v| v.to_bits()), fd.map(|v| v.to_bits())));
                        }
                    }
                    // the metric's own post-processing sees the results of ONE (candidate, stored track) pair at a time
                    if post_min {
                        let best = ok[first..].iter().filter_map(|r| r.3.map(f32::from_bits)).fold(None, |m: Option<f32>, d| Some(m.map_or(d, |x| x.min(d))));
                        if let Some(b) = best {
                            let keep: Vec<Row> = ok[first..].iter().filter(|r| r.3 == Some(b.to_bits())).cloned().collect();
                            ok.truncate(first);
                            ok.extend(keep);
                        }
                    }
                }
                _ => err.push((c.id, t.id, cls)),
            }
        }
    }
    ok.sort();
    err.sort();
    (ok, err)
}

struct Scenario {
    shards: usize,
    stored: Vec<Spec>,
    foreign: Vec<Spec>,
    owned_ids: Vec<u64>,
    owned: bool,
    cls: u64,
    only_baked: bool,
    use_iter: bool,
    /// Some(k): issue the query once before and drop its result objects after k elements
    abandon_after: Option<usize>,
    /// 0: ok stream then error stream, 1: error stream first, 2: ok stream dropped unread, 3: error stream dropped unread
    consume: u8,
    merges: Vec<(u64, u64)>,
    /// the metric post-processes each list it is handed as a list (keeps the closest results only)
    post_min: bool,
}

fn gen_scenario(rng: &mut Rng, small: bool) -> Scenario {
    let shards = if small { 1 + rng.usize(3) } else { 1 + rng.usize(4) };
    let nstored = if small { 2 + rng.usize(4) } else { rng.usize(13) };
    let nclasses = 1 + rng.usize(2);
    let stored: Vec<Spec> = (0..nstored).map(|i| gen_spec(rng, 1 + i as u64, nclasses)).collect();
    let owned = rng.chance(0.5);
    let ncand = if small { 1 + rng.usize(2) } else { 1 + rng.usize(4) };
    let foreign: Vec<Spec> = (0..ncand).map(|i| {
        // mostly fresh ids; sometimes an id that also exists in the store (must never be paired with itself)
        let id = if rng.chance(0.15) && nstored > 0 { 1 + rng.below(nstored as u64) } else { 100 + i as u64 };
        gen_spec(rng, id, nclasses)
    }).collect();
    let mut owned_ids: Vec<u64> = vec![];
    for _ in 0..ncand {
        let id = if rng.chance(0.12) || nstored == 0 { 50 + rng.below(5) } else { 1 + rng.below(nstored as u64) };
        if !owned_ids.contains(&id) {
            owned_ids.push(id);
        }
    }
    let mut merges = vec![];
    if nstored >= 2 && rng.chance(0.5) {
        for _ in 0..1 + rng.usize(3) {
            let d = 1 + rng.below(nstored as u64);
            let s_ = 1 + rng.below(nstored as u64);
            if d != s_ {
                merges.push((d, s_));
            }
        }
    }
    Scenario { merges, shards, stored, foreign, owned_ids, owned, cls: if rng.chance(0.15) { nclasses as u64 } else { rng.usize(nclasses) as u64 }, only_baked: rng.chance(0.4), use_iter: rng.chance(0.5), abandon_after: if rng.chance(0.15) { Some(rng.usize(4)) } else { None }, consume: *rng.pick(&[0u8, 0, 0, 1, 1, 2, 3]), post_min: rng.chance(0.3) }
}

fn store_snaps(st: &Store, shards: usize) -> Vec<Snap> {
    let mut v = vec![];
    let _ = shards;
    vh::all_shards!(st, g => {
        for (_, t) in g.iter() {
            v.push(snap(t));
        }
    });
    v.sort_by_key(|s| s.id);
    v
}

struct RunOut {
    ok: Vec<Row>,
    err: Vec<(u64, u64, u64)>,
    bad_err: Option<String>,
    store_after: Vec<Snap>,
    ok_read: bool,
    err_read: bool,
}

fn run_query(env: &Env, sc: &Scenario, allow_abandon: bool) -> (RunOut, Vec<Snap>, Vec<Snap>) {
    env.plan.post_min.store(sc.post_min, std::sync::atomic::Ordering::SeqCst);
    let mut st: Store = TrackStoreBuilder::new(sc.shards).default_attributes(WAttrs::new(1, 8, env.plan.clone())).metric(WMetric { state: 0, plan: env.plan.clone() }).notifier(env.notif.clone()).build();
    for s in &sc.stored {
        st.add_track(lib_track(env, s)).unwrap();
    }
    // some stored tracks carry a merge history that names other tracks which are still stored
    for (d, s_) in &sc.merges {
        let _ = st.merge_owned(*d, *s_, None, false, true);
    }
    let before = store_snaps(&st, sc.shards);
    let cand_snaps: Vec<Snap> = if sc.owned { before.iter().filter(|s| sc.owned_ids.contains(&s.id)).cloned().collect() } else { sc.foreign.iter().map(|s| snap(&lib_track(env, s))).collect() };
    // now and then the same query is first issued and ABANDONED: its result objects are dropped after a few elements (or
    // untouched) while workers may still be answering; the store and the following query must not notice
    if let (Some(k), true) = (sc.abandon_after, allow_abandon) {
        let (ok_a, err_a) = if sc.owned { st.owned_track_distances(&sc.owned_ids, sc.cls, sc.only_baked) } else { st.foreign_track_distances(sc.foreign.iter().map(|s| lib_track(env, s)).collect(), sc.cls, sc.only_baked) };
        let mut it = ok_a.into_iter();
        for _ in 0..k {
            if it.next().is_none() {
                break;
            }
        }
        drop(it);
        drop(err_a);
    }
    let (ok_h, err_h) = if sc.owned { st.owned_track_distances(&sc.owned_ids, sc.cls, sc.only_baked) } else { st.foreign_track_distances(sc.foreign.iter().map(|s| lib_track(env, s)).collect(), sc.cls, sc.only_baked) };
    // the two streams are independent objects: they may be read in either order, and a caller interested in only one of
    // them may drop the other one unread at once (while workers are still answering)
    let (oks, errs, ok_read, err_read) = match sc.consume {
        1 => {
            let e: Vec<_> = if sc.use_iter { err_h.into_iter().collect() } else { err_h.all() };
            let o: Vec<_> = if sc.use_iter { ok_h.into_iter().collect() } else { ok_h.all() };
            (o, e, true, true)
        }
        2 => {
            drop(ok_h);
            let e: Vec<_> = if sc.use_iter { err_h.into_iter().collect() } else { err_h.all() };
            (vec![], e, false, true)
        }
        3 => {
            drop(err_h);
            let o: Vec<_> = if sc.use_iter { ok_h.into_iter().collect() } else { ok_h.all() };
            (o, vec![], true, false)
        }
        _ => {
            let o: Vec<_> = if sc.use_iter { ok_h.into_iter().collect() } else { ok_h.all() };
            let e: Vec<_> = if sc.use_iter { err_h.into_iter().collect() } else { err_h.all() };
            (o, e, true, true)
        }
    };
    let mut ok: Vec<Row> = oks.iter().map(|e| (e.from, e.to, e.attribute_metric.map(|v| v.to_bits()), e.feature_distance.map(|v| v.to_bits()))).collect();
    ok.sort();
    let mut err = vec![];
    let mut bad = None;
    for e in errs {
        match e {
            Ok(v) => bad = Some(format!("Ok({} elements) on the error stream", v.len())),
            Err(e) => match e.downcast_ref::<Errors>() {
                Some(Errors::ObservationForClassNotFound(a, b, c)) => err.push((*a, *b, *c)),
                other => bad = Some(format!("unexpected error {:?}", other)),
            },
        }
    }
    err.sort();
    let after = store_snaps(&st, sc.shards);
    (RunOut { ok, err, bad_err: bad, store_after: after, ok_read, err_read }, before, cand_snaps)
}

fn judge(rep: &mut Report, idx: u64, sc: &Scenario, out: &RunOut, before: &[Snap], cands: &[Snap], sched: &str, ctx: &Value) -> bool {
    let kind = if sc.owned { "owned" } else { "foreign" };
    let (rok, rerr) = reference(cands, before, sc.cls, sc.only_baked, sc.post_min);
    let mut good = true;
    if out.ok.iter().any(|r| r.0 == r.1) {
        rep.violation(&format!("C10/{}/self-pair", kind), idx, json!({"ctx": ctx, "schedule": sched}));
        good = false;
    }
    if out.ok_read && out.ok != rok {
        let what = if out.ok.len() < rok.len() { "results-missing" } else if out.ok.len() > rok.len() { "results-extra" } else { "results-differ" };
        rep.violation(&format!("C10/{}/{}", kind, what), idx, json!({"ctx": ctx, "schedule": sched, "lib_count": out.ok.len(), "reference_count": rok.len(),
            "missing": rok.iter().filter(|r| !out.ok.contains(r)).take(6).collect::<Vec<_>>(), "extra": out.ok.iter().filter(|r| !rok.contains(r)).take(6).collect::<Vec<_>>()}));
        good = false;
    }
    if out.err_read && (out.err != rerr || out.bad_err.is_some()) {
        rep.violation(&format!("C10/{}/error-stream", kind), idx, json!({"ctx": ctx, "schedule": sched, "lib": out.err, "reference": rerr, "bad": out.bad_err}));
        good = false;
    }
    if out.store_after != before {
        rep.violation(&format!("C10/{}/store-changed", kind), idx, json!({"ctx": ctx, "schedule": sched, "before": before.len(), "after": out.store_after.len()}));
        good = false;
    }
    good
}

fn main() {
    let cli = Cli::parse();
    let mut rep = Report::new("C10", &cli);
    rep.note("rule", json!("scenario = store of 0..12 tracks (0..3 observations in 0..2 classes, features of 1..2 or 9..17 components, mixed compatibility classes and statuses; in 30% of the scenarios the metric post-processes each (candidate, stored track) result list as a list, keeping only its closest results) on 1..4 shards + candidate batch of 1..4 tracks (foreign, some with ids that also exist in the store; or owned ids incl. ids that are not stored), feature class possibly absent, both only_baked settings, results read through all() or into_iter(), ok stream first / error stream first / one of the two dropped unread; in 15% of the scenarios the same query is first issued and abandoned (result objects dropped after 0..3 elements). Reference: enumeration over the pre-query store contents (all stored tracks != candidate, compatible, Ready when only_baked, one element per observation pair with a metric value; (from,to,class) errors when a class is missing). Schedules: small scenarios (<= 3 shards x <= 2 candidates) are driven through EVERY order of worker commands (and for owned queries every position of the caller's step) by gate scripts at the guarded schedule points; larger ones run under seeded random delay plans. Non-trivial: reference multiset has >= 2 results from >= 2 shards; distinct by scenario hash."));
    rep.note("assumptions", json!(["commands of one worker are executed in submission order (crossbeam FIFO)", "a gate script that cannot make progress for 10 s is abandoned and the run counted as stalled (never a violation)"]));
    let env = Env { plan: FaultPlan::new(), notif: CountingNotifier::default() };
    let ctl = Controller::install();
    let n = cli.cases(3_600, 40_000);
    for idx in cli.index_range(n) {
        let mut rng = Rng::for_case(cli.seed, cli.shard, idx);
        let small = idx % 4 == 0 || cli.small;
        let sc = gen_scenario(&mut rng, small);
        rep.eval();
        let ctx = json!({"shards": sc.shards, "owned": sc.owned, "class": sc.cls, "only_baked": sc.only_baked, "iterator": sc.use_iter, "list_wise_postprocessing": sc.post_min,
            "stored": sc.stored.iter().map(|s| format!("{:?}", s)).collect::<Vec<_>>(), "merges_with_history[dest,src]": sc.merges,
            "candidates": if sc.owned { json!(sc.owned_ids) } else { json!(sc.foreign.iter().map(|s| format!("{:?}", s)).collect::<Vec<_>>()) }});
        // 1. plain run (recorded)
        ctl.set_mode(Mode::Record);
        let (out, before, cands) = run_query(&env, &sc, true);
        if sc.abandon_after.is_some() {
            rep.count("scenarios_with_an_abandoned_query_first");
        }
        let (ev, _) = ctl.finish();
        rep.seen("order_signatures", order_signature(&ev, "store.cmd.begin"));
        let mut good = judge(&mut rep, idx, &sc, &out, &before, &cands, "free", &ctx);
        let ncand = cands.len();
        // 2. schedules
        if cli.small {
            // under Miri the interpreter's own scheduler (one seed per process) explores the interleavings
        } else if good && small && sc.shards <= 3 && ncand <= 2 && ncand >= 1 && ctl.gate_timeouts.load(std::sync::atomic::Ordering::SeqCst) < 3 {
            // (after three abandoned scripts in this process the scripted schedules are given up: the commands the scripts
            // wait for are evidently not the commands this store issues; the floor on gated executions then reports it)
            let mut scripts = vec![];
            for w in worker_interleavings(&vec![ncand; sc.shards]) {
                if sc.owned {
                    scripts.extend(with_caller_positions(&w));
                } else {
                    scripts.push(w);
                }
            }
            rep.count("scenarios_with_all_scripts");
            for script in scripts {
                ctl.set_mode(Mode::Gate { script: script.clone() });
                // (gate scripts account for the commands of exactly one query)
                let (o2, b2, c2) = run_query(&env, &sc, false);
                let consumed = ctl.script_consumed();
                let (ev, stalled) = ctl.finish();
                rep.count("gated_executions");
                if stalled || consumed != script.len() {
                    rep.count("gate_scripts_stalled_or_incomplete");
                    // the abandoned script says nothing about the schedule that was taken, but the query it ran to completion
                    // is an execution like any other: its result is judged, and a stall (10 s) ends the scripts of this scenario
                    if !judge(&mut rep, idx, &sc, &o2, &b2, &c2, &format!("gate {:?} (abandoned)", script), &ctx) {
                        good = false;
                    }
                    if stalled {
                        break;
                    }
                    continue;
                }
                rep.seen("order_signatures", order_signature(&ev, "store.cmd.begin"));
                rep.seen("gate_scripts", {
                    let mut h = Hasher::new();
                    h.u64(idx);
                    for t in &script {
                        h.u64(match t {
                            Token::Worker(k) => *k,
                            Token::Caller => 99,
                        });
                    }
                    h.get()
                });
                if !judge(&mut rep, idx, &sc, &o2, &b2, &c2, &format!("gate {:?}", script), &ctx) {
                    good = false;
                    break;
                }
            }
        } else if good {
            for k in 0..(if cli.thorough() { 6 } else { 3 }) {
                ctl.set_mode(Mode::Delay { seed: rng.u64() ^ k, intensity: 60, max_sleep_us: 400 });
                let (o2, b2, c2) = run_query(&env, &sc, true);
                let (ev, _) = ctl.finish();
                rep.count("delayed_executions");
                rep.seen("order_signatures", order_signature(&ev, "store.cmd.begin"));
                if !judge(&mut rep, idx, &sc, &o2, &b2, &c2, "delay-plan", &ctx) {
                    break;
                }
            }
        }
        let (rok, rerr) = reference(&cands, &before, sc.cls, sc.only_baked, sc.post_min);
        if !rerr.is_empty() {
            rep.count("scenarios_with_class_missing_errors");
        }
        let shards_hit: std::collections::HashSet<u64> = rok.iter().map(|r| r.1 % sc.shards as u64).collect();
        if rok.len() >= 2 && shards_hit.len() >= 2 {
            let mut h = Hasher::new();
            h.str(&ctx.to_string());
            rep.nontrivial(h.get());
        }
        if rep.want_sample() && rok.len() >= 2 && rok.len() <= 6 {
            rep.sample(json!({"scenario": ctx, "reference_results[from,to,attr_bits,dist_bits]": rok, "reference_errors": rerr}));
        }
    }
    rep.add("gate_timeouts", ctl.gate_timeouts.load(std::sync::atomic::Ordering::SeqCst));
    rep.finish();
}
