//! C06 — batch trackers refine the simple ones; one result per scene; no deadlock.
use similari::prelude::{BatchSort, PositionalMetricType};

use similari::trackers::visual_sort::batch_api::BatchVisualSort;
use std::collections::{BTreeMap, HashMap};
use std::sync::mpsc;
use vh::posref::{judge_call, same_grouping, Judgement};
use vh::rng::Hasher;
use vh::sched::{Controller, Mode};
use vh::trk::*;
use vh::watchdog::Watchdog;
use vh::{json, Cli, Report, Rng, Value};

type BatchOut = Vec<(u64, Vec<Rec>)>;

fn check_exactly_once(rep: &mut Report, kind: Kind, idx: u64, bi: usize, batch: &[(u64, Vec<Det>)], out: &BatchOut, ctx: &Value) -> bool {
    let mut got: Vec<u64> = out.iter().map(|x| x.0).collect();
    let mut want: Vec<u64> = batch.iter().map(|x| x.0).collect();
    got.sort();
    want.sort();
    if got != want {
        let sig = if got.len() > want.len() { "result-delivered-twice-or-extra" } else if got.len() < want.len() { "result-missing" } else { "wrong-scenes" };
        rep.violation(&format!("C06/{:?}/exactly-once/{}", kind, sig), idx, json!({"ctx": ctx, "batch": bi, "submitted_scenes": want, "received_scenes": got}));
        return false;
    }
    for (s, recs) in out {
        let dets = &batch.iter().find(|b| b.0 == *s).unwrap().1;
        if recs.len() != dets.len() || recs.iter().zip(dets.iter()).any(|(r, d)| !r.observed.same(&d.b) || r.custom != d.custom || r.scene != *s) {
            rep.violation(&format!("C06/{:?}/exactly-once/records-not-one-per-detection-in-order", kind), idx, json!({"ctx": ctx, "batch": bi, "scene": s, "dets": dets.len(), "records": recs.len()}));
            return false;
        }
    }
    true
}

fn main() {
    let cli = Cli::parse();
    let mut rep = Report::new("C06", &cli);
    rep.note("rule", json!("case = BatchSort / BatchVisualSort with distance shards 1..4 x voting shards 1..4 and a sequence of 4..10 batches over 1..5 scenes (an eighth of the cases: wide batches of 8..40 scenes), under one of the schedules {free, seeded random delay plan over all vote.* / batch.* / store.* schedule points, every voting thread stalled at vote.result.send (bounded(1) back-pressure), predict loop stalled after each batch.scene.dispatched, voting thread stalled at vote.monitor.dec while the next predict already waits on the monitor, every store write of the voting threads stalled} and one of the two retrieval disciplines the property allows {same thread after predict; consumer thread started before predict with the next batch submitted while it is still draining - in half of those cases the tracker is dropped before the results are drained}. Monitors: (1) exactly-once: every batch delivers exactly one result per submitted scene, each with one record per detection in order; (2) refinement: per scene the grouping (up to an id bijection built incrementally) and the boxes / epochs / lengths (bit-exact) equal those of Sort / VisualSort run on that scene's sequence of detection lists, in same-thread mode also the stored state of every touched track (histories, gallery multiset, collected count, filter state) and every batch scene call is itself judged by the C02 / C12 references; grouping differences go through the explain-divergence oracle; (3) progress: a quiescence detector (all threads sleeping, no CPU time, no hook event for 4 s) turns a hang of predict / get / Drop into a deadlock violation with the last hook site of every thread. Non-trivial: (case) with >= 2 scenes per batch and >= 2 voting threads or a stalling schedule; distinct by case hash; distinct hook-order signatures are counted."));
    rep.note("assumptions", json!(["absence of deadlock is claimed only for the schedules observed (no explicit-state exploration of the monitor/bounded-channel protocol in this family)", "a stall in which threads keep consuming CPU is inconclusive, never a violation"]));
    let ctl = if cli.small { None } else { Some(Controller::install()) };
    let wd = if cli.small { None } else { Some(Watchdog::start(&cli, "C06", ctl.clone())) };
    let n = cli.cases(1440, 12000);
    for idx in cli.index_range(n) {
        let mut rng = Rng::for_case(cli.seed, cli.shard, idx);
        let kind = if idx % 2 == 0 { Kind::BatchSort } else { Kind::BatchVisual };
        let mut cfg = gen_cfg(&mut rng, kind);
        cfg.max_idle = rng.usize(4);
        cfg.auto_waste = *rng.pick(&[None, None, Some(0), Some(1), Some(3)]);
        if kind == Kind::BatchVisual && rng.chance(0.3) {
            // only one of the two own-area thresholds set (they are evaluated at different places)
            if rng.chance(0.5) {
                cfg.vis.own_use = 0.0;
                cfg.vis.own_collect = *rng.pick(&[0.3f32, 0.6, 0.9]);
            } else {
                cfg.vis.own_collect = 0.0;
                cfg.vis.own_use = *rng.pick(&[0.3f32, 0.6, 0.9]);
            }
        }
        if cli.small {
            cfg.shards = 2;
            cfg.voting_shards = 2;
        }
        // an eighth of the cases submit wide batches (8..40 scenes each, far more scenes than voting workers), so that
        // every queue between the predict loop, the voting workers and the bounded(1) result channel is filled
        let wide = !cli.small && rng.chance(0.125);
        let scenes = if cli.small { 2 } else if wide { 8 + rng.usize(33) } else { 1 + rng.usize(5) };
        if wide {
            rep.count("cases_with_wide_batches(8..40 scenes)");
        }
        let w = WorldOpts {
            scenes,
            same_region: rng.chance(0.4),
            preset: *rng.pick(&["random", "crossing", "convoy", "crowd", "lookalikes", "pack"]),
            rotated: rng.chance(0.2),
            features: kind.is_visual(),
            feat_dim: 4,
            duplicates: false,
            nobj: if cli.small { 2 } else if wide { 1 + rng.usize(2) } else { 1 + rng.usize(5) },
            steps: 40,
            low_quality: false,
            avoid_coincident: kind.is_visual() && (cfg.vis.own_use + cfg.vis.own_collect > 0.0),
            low_conf: rng.chance(0.15),
            vary_nobj: false,
        };
        let h = HistOpts { len: if cli.small { 2 } else { 4 + rng.usize(7) }, lifecycle_ops: false, clear_wasted: false, auto_waste_ops: false, batches: true, empty_calls: false };
        let ops = gen_history(&mut rng, &w, &h);
        let batches: Vec<Vec<(u64, Vec<Det>)>> = ops.iter().filter_map(|o| if let Op::Batch(b) = o { Some(b.clone()) } else { None }).collect();
        if batches.is_empty() {
            continue;
        }
        rep.max("max_scenes_in_one_batch", batches.iter().map(|b| b.len()).max().unwrap_or(0) as f64);
        let schedule = if cli.small { "free" } else { *rng.pick(&["free", "delay", "delay", "stall:vote.result.send", "stall:batch.scene.dispatched", "stall:vote.monitor.dec", "stall:vote.store_write"]) };
        let consumer_thread = rng.chance(0.4);
        let early_drop = consumer_thread && rng.chance(0.5);
        let plan_seed = rng.u64();
        rep.eval();
        rep.count(&format!("schedule/{}", schedule));
        rep.count(if consumer_thread { "discipline/consumer-thread" } else { "discipline/same-thread" });
        let ctx = json!({"cfg": cfg.js(), "schedule": schedule, "consumer_thread": consumer_thread, "scenes": scenes, "batches": batches.len()});
        if let Some(w) = &wd {
            w.arm(ctx.to_string());
        }
        if let Some(c) = &ctl {
            match schedule {
                "free" => c.set_mode(Mode::Record),
                "delay" => c.set_mode(Mode::Delay { seed: plan_seed, intensity: 60, max_sleep_us: 1500 }),
                s => {
                    let site: &'static str = match &s[6..] {
                        "vote.result.send" => "vote.result.send",
                        "batch.scene.dispatched" => "batch.scene.dispatched",
                        "vote.store_write" => "vote.store_write",
                        _ => "vote.monitor.dec",
                    };
                    // (store writes happen once per detection: shorter stalls there)
                    let us = if site == "vote.store_write" { 100 + plan_seed % 1400 } else { 2000 + plan_seed % 15000 };
                    c.set_mode(Mode::Stall { site, us, seed: plan_seed });
                }
            }
        }
        let mut trk = Some(AnyTracker::new(&cfg));
        let mut outs: Vec<BatchOut> = vec![];
        let mut pres: Vec<Vec<LiveTrack>> = vec![];
        let mut pre_epochs: Vec<HashMap<u64, usize>> = vec![];
        let mut posts: Vec<HashMap<u64, LiveTrack>> = vec![];
        if consumer_thread {
            let mut pending: Vec<mpsc::Receiver<BatchOut>> = vec![];
            for b in &batches {
                pending.push(trk.as_mut().unwrap().submit_with_consumer(b));
                if let Some(w) = &wd {
                    w.beat();
                }
            }
            // half of the consumer-thread cases shut the tracker down right after the last submission, while the consumer
            // threads are still draining: every result must still be delivered
            if early_drop {
                rep.count("consumer_mode_cases_with_shutdown_before_results_are_drained");
                drop(trk.take());
                if let Some(w) = &wd {
                    w.beat();
                }
            }
            for rx in pending {
                match rx.recv() {
                    Ok(o) => outs.push(o),
                    Err(_) => {
                        rep.violation(&format!("C06/{:?}/consumer-thread-died", kind), idx, ctx.clone());
                        break;
                    }
                }
                if let Some(w) = &wd {
                    w.beat();
                }
            }
        } else {
            for b in &batches {
                pres.push(trk.as_ref().unwrap().live());
                pre_epochs.push((0..scenes as u64).map(|s| (s, trk.as_ref().unwrap().epoch(s))).collect());
                outs.push(trk.as_mut().unwrap().predict_batch(b));
                posts.push(trk.as_ref().unwrap().live().into_iter().map(|t| (t.id, t)).collect());
                if let Some(w) = &wd {
                    w.beat();
                }
            }
        }
        // shutdown under the watchdog
        drop(trk);
        if let Some(w) = &wd {
            w.beat();
        }
        if let Some(c) = &ctl {
            let (ev, _) = c.finish();
            let mut hh = Hasher::new();
            for (s, a) in &ev {
                if s.starts_with("vote.") || s.starts_with("batch.") {
                    hh.str(s).u64(*a);
                }
            }
            rep.seen("hook_order_signatures", hh.get());
            rep.add("hook_events_observed", ev.len() as u64);
        }
        if let Some(w) = &wd {
            w.disarm();
        }
        if outs.len() != batches.len() {
            continue;
        }
        // (1) exactly once
        let mut ok = true;
        for (bi, (b, o)) in batches.iter().zip(outs.iter()).enumerate() {
            ok &= check_exactly_once(&mut rep, kind, idx, bi, b, o, &ctx);
            rep.count("batches_checked");
            rep.add("scene_results_checked", o.len() as u64);
        }
        if !ok {
            continue;
        }
        // (1b) every scene call of the batch tracker is itself a valid association per the C02 / C12 references
        // (same-thread discipline only: the pre-batch snapshot is quiescent there)
        if !consumer_thread {
            'judge: for (bi, b) in batches.iter().enumerate() {
                for (s, dets) in b {
                    let recs = &outs[bi].iter().find(|x| x.0 == *s).unwrap().1;
                    match judge_call(&cfg, *s, pre_epochs[bi][s] + 1, dets, recs, &pres[bi]) {
                        Judgement::Invalid(sig, d) => {
                            rep.violation(&format!("C06/{:?}/batch-call-invalid/{}", kind, sig), idx, json!({"ctx": ctx, "scene": s, "batch": bi, "detail": d}));
                            break 'judge;
                        }
                        Judgement::Valid => rep.count("batch_scene_calls_judged_valid"),
                        Judgement::Undecidable(_) => rep.count("batch_scene_calls_undecidable"),
                    }
                }
            }
        }
        // (2) refinement of the simple tracker, scene by scene
        let mut scfg = cfg.clone();
        scfg.kind = kind.simple();
        for s in 0..scenes as u64 {
            let mut simple = AnyTracker::new(&scfg);
            let mut map: HashMap<u64, u64> = HashMap::new();
            let mut rev: HashMap<u64, u64> = HashMap::new();
            for (bi, b) in batches.iter().enumerate() {
                let dets = match b.iter().find(|x| x.0 == s) {
                    Some(x) => &x.1,
                    None => continue,
                };
                let brecs = &outs[bi].iter().find(|x| x.0 == s).unwrap().1;
                let spre = simple.live();
                let sepoch = simple.epoch(s) + 1;
                let srecs = simple.predict(s, dets);
                rep.count("scene_calls_compared_with_simple_tracker");
                if !same_grouping(brecs, &srecs, &map, &rev) {
                    let js = judge_call(&scfg, s, sepoch, dets, &srecs, &spre);
                    // Same-thread mode: the batch outcome is judged against the batch tracker's own quiescent pre-batch
                    // snapshot. Consumer-thread mode has no quiescent snapshot of the batch tracker, but up to this call
                    // the two runs agreed (same grouping, same numbers), so the simple tracker's pre-call state IS the
                    // state a correct batch tracker acts on: the batch records, with their ids translated through the
                    // bijection built so far, are judged against it.
                    let jb = if !consumer_thread {
                        judge_call(&cfg, s, pre_epochs[bi][&s] + 1, dets, brecs, &pres[bi])
                    } else {
                        let bt: Vec<Rec> = brecs.iter().map(|r| {
                            let mut t = r.clone();
                            t.id = map.get(&r.id).cloned().unwrap_or((1u64 << 62) | r.id);
                            t
                        }).collect();
                        rep.count("consumer_mode_divergences_judged_against_simple_tracker_state");
                        judge_call(&scfg, s, sepoch, dets, &bt, &spre)
                    };
                    match (js, jb) {
                        (Judgement::Invalid(sig, d), _) => rep.violation(&format!("C06/{:?}/refinement/simple-tracker-outcome-invalid/{}", kind, sig), idx, json!({"ctx": ctx, "scene": s, "batch": bi, "detail": d})),
                        (_, Judgement::Invalid(sig, d)) => rep.violation(&format!("C06/{:?}/refinement/batch-outcome-invalid/{}", kind, sig), idx, json!({"ctx": ctx, "scene": s, "batch": bi, "detail": d})),
                        _ => rep.count("tie_divergences"),
                    }
                    break;
                }
                // stored state of the tracks touched by this call (same-thread mode): histories, galleries, counters
                if !consumer_thread {
                    let spost: HashMap<u64, LiveTrack> = simple.live().into_iter().map(|t| (t.id, t)).collect();
                    let mut state_diff = None;
                    for (br, sr) in brecs.iter().zip(srecs.iter()) {
                        if let (Some(bt), Some(st)) = (posts[bi].get(&br.id), spost.get(&sr.id)) {
                            let same = |a: &[DBox], b: &[DBox]| a.len() == b.len() && a.iter().zip(b).all(|(x, y)| x.same(y));
                            let gal = |t: &LiveTrack| {
                                let mut g: Vec<(Option<Vec<u32>>, u32)> = t.gallery.iter().map(|g| (g.feature.as_ref().map(|f| f.iter().map(|x| x.to_bits()).collect()), g.quality.to_bits())).collect();
                                g.sort();
                                g
                            };
                            if !same(&bt.observed_hist, &st.observed_hist) || !same(&bt.predicted_hist, &st.predicted_hist) || bt.feature_hist != st.feature_hist {
                                state_diff = Some(("histories", br.id, sr.id));
                            } else if bt.collected_count != st.collected_count || gal(bt) != gal(st) {
                                state_diff = Some(("gallery", br.id, sr.id));
                            } else if bt.kalman != st.kalman || !bt.est.same(&st.est) {
                                state_diff = Some(("filter-state", br.id, sr.id));
                            }
                            rep.count("stored_track_states_compared_with_simple_tracker");
                        }
                    }
                    if let Some((what, bid, sid)) = state_diff {
                        if same_grouping(brecs, &srecs, &map, &rev) {
                            rep.violation(&format!("C06/{:?}/refinement/stored-{}-differs-with-equal-grouping", kind, what), idx, json!({"ctx": ctx, "scene": s, "batch": bi, "batch_track": bid, "simple_track": sid,
                                "batch_gallery[quality,has_feature]": posts[bi].get(&bid).map(|t| t.gallery.iter().map(|g| (g.quality, g.feature.is_some())).collect::<Vec<_>>()),
                                "simple_gallery[quality,has_feature]": spost.get(&sid).map(|t| t.gallery.iter().map(|g| (g.quality, g.feature.is_some())).collect::<Vec<_>>())}));
                            break;
                        }
                    }
                }
                if let Some(e) = bijection_check(brecs, &srecs, &mut map, &mut rev) {
                    rep.violation(&format!("C06/{:?}/refinement/numbers-differ-with-equal-grouping", kind), idx, json!({"ctx": ctx, "scene": s, "batch": bi, "difference": e,
                        "batch_tracker": brecs.iter().map(|r| r.js()).collect::<Vec<_>>(), "simple_tracker": srecs.iter().map(|r| r.js()).collect::<Vec<_>>()}));
                    break;
                }
            }
        }
        let multi = batches.iter().any(|b| b.len() >= 2);
        if multi && (cfg.voting_shards >= 2 || schedule != "free") {
            let mut hh = Hasher::new();
            hh.str(&ctx.to_string()).u64(idx);
            rep.nontrivial(hh.get());
        }
        if rep.want_sample() && multi {
            let m: BTreeMap<u64, usize> = batches[0].iter().map(|(s, d)| (*s, d.len())).collect();
            rep.sample(json!({"ctx": ctx, "first_batch[scene -> detections]": m, "first_batch_results[scene, ids]": outs[0].iter().map(|(s, r)| json!([s, r.iter().map(|x| x.id).collect::<Vec<_>>()])).collect::<Vec<_>>()}));
        }
    }
    let _ = (BatchSort::idle_tracks, BatchVisualSort::idle_tracks, PositionalMetricType::Mahalanobis);
    rep.finish();
}
