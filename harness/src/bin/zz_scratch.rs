use vh::trk::*;
use vh::Rng;
use std::time::Instant;
fn main() {
    let mut rng = Rng::for_case(1, 0, 1);
    for kind in [Kind::Sort, Kind::BatchSort, Kind::Visual] {
        let mut cfg = gen_cfg(&mut rng, kind);
        cfg.shards = 2;
        let mut trk = AnyTracker::new(&cfg);
        let t0 = Instant::now();
        let mut cell = 0u64;
        for _ in 0..10 {
            let dets: Vec<Det> = (0..150).map(|_| { let (cx, cy) = ((cell % 64) as f32 * 60.0 + 20.0, (cell / 64) as f32 * 60.0 + 20.0); cell += 1; Det { b: DBox { xc: cx, yc: cy, angle: None, aspect: 0.8, h: 30.0, conf: 0.9 }, custom: None, feature: None, quality: None, truth: 0 } }).collect();
            trk.predict(1_000_000, &dets);
        }
        let t1 = Instant::now();
        let dets: Vec<Det> = (0..14).map(|i| Det { b: DBox { xc: 10.0 + 3.0 * i as f32, yc: 5.0, angle: None, aspect: 0.8, h: 30.0, conf: 0.9 }, custom: None, feature: None, quality: None, truth: 0 }).collect();
        for _ in 0..10 { trk.predict(0, &dets); }
        let t2 = Instant::now();
        for _ in 0..10 { let _ = trk.live(); }
        let t3 = Instant::now();
        println!("{:?} pos={:?}: create 1500: {:?}, 10 predicts: {:?}, 10 live(): {:?}", kind, cfg.pos, t1 - t0, t2 - t1, t3 - t2);
    }
}
