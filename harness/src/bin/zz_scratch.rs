use similari::utils::bbox::Universal2DBox;
use similari::utils::kalman::kalman_2d_box::Universal2DBoxKalmanFilter;
fn main() {
    let f = Universal2DBoxKalmanFilter::new(0.026005830615758896, 0.008322765119373798);
    let mut h = 83.5f32;
    let mut st = f.initiate(&Universal2DBox::new(50.0, 60.0, None, 1.0, h));
    for _ in 0..40 { h *= 0.992; st = f.predict(&st); st = f.update(&st, &Universal2DBox::new(50.0, 60.0, None, 1.0, h)); }
    for t in 1..=200 {
        st = f.predict(&st);
        if t % 10 == 0 {
            let (m, c) = st.verif_raw();
            let z = Universal2DBox::new(55.0, 58.0, None, 1.0, 20.0);
            let d = f.distance(st, &z);
            let s2 = f.update(&st, &z);
            let (m2, c2) = s2.verif_raw();
            println!("t={} Ppos={:e} h={} vh={} dist={} -> after update Ppos={:e} Pyy={:e} Pang={:e} Ph={:e} mean={:?}", t, c[0], m[4], m[9], d, c2[0], c2[11], c2[22], c2[44], &m2[0..5]);
        }
    }
}
