//! C09 — the track store is a faithful id -> track map and reports merge failures.
use similari::prelude::{ObservationBuilder, TrackStoreBuilder};
use similari::store::TrackStore;
use similari::track::Track;
use similari::Errors;
use std::collections::BTreeSet;
use std::sync::Arc;
use vh::rng::Hasher;
use vh::storemodel::*;
use vh::{json, Cli, Report, Rng, Value};

type Store = TrackStore<WAttrs, WMetric, WObs, CountingNotifier>;

#[derive(Clone, Debug)]
struct Spec {
    id: u64,
    compat: u8,
    obs: Vec<(u64, Option<f32>, Option<Vec<f32>>)>,
}

#[derive(Clone, Debug)]
enum SOp {
    AddTrack(Spec),
    Add { id: u64, cls: u64, oa: Option<f32>, feat: Option<Vec<f32>>, upd: Option<WUpdate> },
    Fetch(Vec<u64>),
    MergeOwned { dest: u64, src: u64, classes: Option<Vec<u64>>, remove: bool, hist: bool },
    MergeExternal { dest: u64, src: Spec, classes: Option<Vec<u64>>, hist: bool, noblock: bool },
    Lookup(WLookup),
    FindUsable,
    Clear,
    NewTrackBuild(u64),
}

struct Env {
    plan: Arc<FaultPlan>,
    mplan: Arc<FaultPlan>,
    notif: CountingNotifier,
    cap: usize,
}

fn lib_track(env: &Env, st: &Store, s: &Spec) -> Result<WTrack, ()> {
    // built through the store's own builder (attributes / metric / notifier cloned from the store)
    let mut b = st.new_track(s.id);
    for (c, oa, f) in &s.obs {
        let mut ob = ObservationBuilder::new(*c);
        if let Some(q) = oa {
            ob = ob.observation_attributes(WObs(*q));
        }
        if let Some(v) = f {
            ob = ob.observation(mk_feature(v));
        }
        b = b.observation(ob.build());
    }
    let mut t = b.build().map_err(|_| ())?;
    if s.compat != 1 {
        t.add_observation(0, None, None, Some(WUpdate { delta: 0, set_compat: Some(s.compat) })).map_err(|_| ())?;
    }
    let _ = env;
    Ok(t)
}

fn model_track(m: &MStore, s: &Spec) -> Result<MTrack, ()> {
    let mut t = m.new_track(s.id);
    for (c, oa, f) in &s.obs {
        t.add_observation(*c, *oa, f.clone(), None).map_err(|_| ())?;
    }
    if s.compat != 1 {
        t.add_observation(0, None, None, Some(&WUpdate { delta: 0, set_compat: Some(s.compat) })).map_err(|_| ())?;
    }
    Ok(t)
}

fn compare_store(env: &Env, st: &Store, m: &MStore, shards: usize) -> Option<Value> {
    let stats = st.shard_stats();
    if stats.len() != shards {
        return Some(json!({"what": "shard_stats length", "stats": stats}));
    }
    // "found in the shard determined by its id": which shard that is, is the store's business (get_store(id) hands it out);
    // what is required is that every track of the model sits there, unchanged, and that the per-shard counts add up to the
    // number of stored tracks (so the store holds nothing else)
    if stats.iter().sum::<usize>() != m.tracks.len() {
        return Some(json!({"what": "per-shard counts do not sum to the number of stored tracks", "lib": stats, "model_tracks": m.tracks.len()}));
    }
    for (id, mt) in m.tracks.iter() {
        let g = st.get_store(*id as usize);
        match g.get(id) {
            None => return Some(json!({"what": "stored track not found in the shard determined by its id", "id": id})),
            Some(t) => {
                if t.get_track_id() != *id {
                    return Some(json!({"what": "key differs from track id", "key": id, "track_id": t.get_track_id()}));
                }
                let s = snap(t);
                if s != mt.snap() {
                    return Some(json!({"what": "stored track differs from the model", "id": id, "lib": format!("{:?}", s), "model": format!("{:?}", mt.snap())}));
                }
            }
        }
        if let Some((other, _)) = g.iter().find(|(k, _)| !m.tracks.contains_key(*k)) {
            return Some(json!({"what": "stored track unknown to the model", "id": other}));
        }
    }
    let _ = env;
    None
}

/// apply one op to both; returns a description of the first disagreement
fn step(env: &Env, st: &mut Store, m: &mut MStore, op: &SOp, rep: &mut Report) -> Option<(String, Value)> {
    match op {
        SOp::AddTrack(s) => {
            let lt = lib_track(env, st, s);
            let mt = model_track(m, s);
            match (lt, mt) {
                (Ok(lt), Ok(mt)) => {
                    let lr = st.add_track(lt);
                    let mr = m.add_track(mt);
                    match (&lr, &mr) {
                        (Ok(a), Ok(b)) if a == b => rep.count("ret/add_track/ok"),
                        (Err(e), Err(())) => {
                            rep.count("ret/add_track/duplicate-rejected");
                            if !matches!(e.downcast_ref::<Errors>(), Some(Errors::DuplicateTrackId(x)) if *x == s.id) {
                                return Some(("C09/add_track/wrong-error".into(), json!(format!("{:?}", e))));
                            }
                        }
                        _ => return Some(("C09/add_track/return".into(), json!({"lib": format!("{:?}", lr.map_err(|e| e.to_string())), "model": format!("{:?}", mr)}))),
                    }
                }
                (Err(()), Err(())) => rep.count("ret/build/failed-both"),
                (a, b) => return Some(("C09/new_track/build-result".into(), json!({"lib_ok": a.is_ok(), "model_ok": b.is_ok()}))),
            }
        }
        SOp::NewTrackBuild(id) => {
            let t = st.new_track(*id).build();
            match t {
                Ok(t) => {
                    let s = snap(&t);
                    if s != m.new_track(*id).snap() {
                        return Some(("C09/new_track/empty-track-differs".into(), json!(format!("{:?}", s))));
                    }
                    rep.count("ret/new_track/ok");
                }
                Err(e) => return Some(("C09/new_track/error".into(), json!(e.to_string()))),
            }
        }
        SOp::Add { id, cls, oa, feat, upd } => {
            let missing = !m.tracks.contains_key(id);
            let lr = st.add(*id, *cls, oa.map(WObs), feat.as_ref().map(|v| mk_feature(v)), upd.clone());
            let mr = m.add(*id, *cls, *oa, feat.clone(), upd.as_ref());
            if lr.is_ok() != mr.is_ok() {
                return Some((format!("C09/add/{}/return", if missing { "missing" } else { "existing" }), json!({"lib": format!("{:?}", lr.map_err(|e| e.to_string())), "model_ok": mr.is_ok()})));
            }
            rep.count(&format!("ret/add/{}/{}", if missing { "missing" } else { "existing" }, if mr.is_ok() { "ok" } else { "err" }));
            if missing && mr.is_ok() {
                // differential: the same thing done by building externally and inserting, in a scratch store
                let mut scratch: Store = TrackStoreBuilder::new(1).default_attributes(WAttrs::new(1, env.cap, env.plan.clone())).metric(WMetric { state: 0, plan: env.plan.clone() }).notifier(env.notif.clone()).build();
                let mut ob = ObservationBuilder::new(*cls);
                if let Some(q) = oa {
                    ob = ob.observation_attributes(WObs(*q));
                }
                if let Some(v) = feat {
                    ob = ob.observation(mk_feature(v));
                }
                if let Some(u) = upd {
                    ob = ob.track_attributes_update(u.clone());
                }
                let ext = scratch.new_track(*id).observation(ob.build()).build().unwrap();
                scratch.add_track(ext).unwrap();
                let a = snap(scratch.get_store(*id as usize).get(id).unwrap());
                let b = st.get_store(*id as usize).get(id).map(snap);
                if Some(&a) != b.as_ref() {
                    return Some(("C09/add/missing-differs-from-external-build".into(), json!({"via_add": format!("{:?}", b), "external_build": format!("{:?}", a)})));
                }
                rep.count("add_missing_vs_external_build_compared");
            }
        }
        SOp::Fetch(ids) => {
            let lr: Vec<Snap> = st.fetch_tracks(ids).iter().map(snap).collect();
            let mr: Vec<Snap> = m.fetch(ids).iter().map(|t| t.snap()).collect();
            if lr != mr {
                return Some(("C09/fetch_tracks/return".into(), json!({"ids": ids, "lib": format!("{:?}", lr), "model": format!("{:?}", mr)})));
            }
            rep.add("ret/fetch/returned", mr.len() as u64);
        }
        SOp::MergeOwned { dest, src, classes, remove, hist } => {
            let lr = st.merge_owned(*dest, *src, classes.as_deref(), *remove, *hist);
            let mr = m.merge_owned(*dest, *src, classes.as_deref(), *remove, *hist);
            let l = match &lr {
                Ok(Some(t)) => format!("ok-some {:?}", snap(t)),
                Ok(None) => "ok-none".to_string(),
                Err(_) => "err".to_string(),
            };
            let mm = match &mr {
                Ok(Some(t)) => format!("ok-some {:?}", t.snap()),
                Ok(None) => "ok-none".to_string(),
                Err(()) => "err".to_string(),
            };
            if l != mm {
                let kind = if mr.is_err() && lr.is_ok() { "ok-returned" } else { "return" };
                let why = if !m.tracks.contains_key(src) { "src-missing" } else if !m.tracks.contains_key(dest) { "dest-missing" } else if dest == src { "same-track" } else { "merge" };
                return Some((format!("C09/merge_owned/{}/{}", why, kind), json!({"lib": l, "model": mm})));
            }
            rep.count(&format!("ret/merge_owned/{}", if mr.is_ok() { "ok" } else { "err" }));
        }
        SOp::MergeExternal { dest, src, classes, hist, noblock } => {
            let lt = lib_track(env, st, src);
            let mt = model_track(m, src);
            if let (Ok(lt), Ok(mt)) = (lt, mt) {
                let mut forgot = false;
                let lr = if *noblock {
                    env.plan.slow_us.store(400, std::sync::atomic::Ordering::SeqCst);
                    match st.merge_external_noblock(*dest, lt, classes.as_deref(), *hist) {
                        Ok(f) if dest.wrapping_add(src.id) % 3 == 0 => {
                            // fire and forget: the future is dropped at once, while the (slowed down) merge is still in
                            // flight; the merge must take effect all the same and the store must keep serving. The barrier
                            // before the state comparison is a blocking merge into the same destination of a track carrying
                            // the destination's own id: it queues behind the pending merge on the destination's worker and
                            // is refused there without effect (same track / destination missing). (A lookup is no barrier:
                            // nothing obliges the store to send it to a worker whose shard holds no track.)
                            drop(f);
                            env.plan.slow_us.store(0, std::sync::atomic::Ordering::SeqCst);
                            if let Ok(bt) = lib_track(env, st, &Spec { id: *dest, compat: 1, obs: vec![] }) {
                                if st.merge_external(*dest, &bt, None, false).is_ok() {
                                    return Some(("C09/merge_external/same-track/ok-returned".into(), json!({"dest": dest, "note": "barrier merge of a track with the destination's own id"})));
                                }
                            }
                            rep.count("noblock_merges_whose_future_was_dropped");
                            // (the outcome is not observed: only the state comparison after this step judges the effect)
                            forgot = true;
                            Ok(())
                        }
                        Ok(f) => {
                            // deferred get: while the merge is in flight (its optimize step is slowed down) the store must
                            // keep looking like the map it is: same number of tracks, destination present under its id
                            let want: usize = m.tracks.len();
                            let dest_known = m.tracks.contains_key(dest);
                            let mut probes = 0;
                            let mut bad: Option<Value> = None;
                            while !f.is_ready() && probes < 200_000 {
                                let n: usize = st.shard_stats().iter().sum();
                                let present = st.get_store(*dest as usize).contains_key(dest);
                                if n != want || present != dest_known {
                                    bad = Some(json!({"stored_during_merge": n, "expected": want, "destination_present": present, "destination_expected": dest_known}));
                                    break;
                                }
                                probes += 1;
                            }
                            rep.add("probes_during_inflight_merge", probes);
                            env.plan.slow_us.store(0, std::sync::atomic::Ordering::SeqCst);
                            let r = f.get();
                            if let Some(b) = bad {
                                return Some(("C09/merge_external_noblock/store-inconsistent-while-merge-in-flight".into(), b));
                            }
                            r
                        }
                        Err(e) => {
                            env.plan.slow_us.store(0, std::sync::atomic::Ordering::SeqCst);
                            Err(e)
                        }
                    }
                } else {
                    st.merge_external(*dest, &lt, classes.as_deref(), *hist)
                };
                let mr = m.merge_external(*dest, &mt, classes.as_deref(), *hist);
                if !forgot && lr.is_ok() != mr.is_ok() {
                    let why = if !m.tracks.contains_key(dest) { "dest-missing" } else if *dest == src.id { "same-track" } else { "merge" };
                    let kind = if mr.is_err() { "ok-returned" } else { "err-returned" };
                    return Some((format!("C09/merge_external{}/{}/{}", if *noblock { "_noblock" } else { "" }, why, kind), json!({"lib": format!("{:?}", lr.map_err(|e| e.to_string()))})));
                }
                rep.count(&format!("ret/merge_external/{}", if mr.is_ok() { "ok" } else { "err" }));
            }
        }
        SOp::Lookup(q) => {
            let lr: BTreeSet<(u64, u8)> = st.lookup(q.clone()).iter().map(|(i, s)| (*i, status_of(s))).collect();
            let n = st.lookup(q.clone()).len();
            let mr: BTreeSet<(u64, u8)> = m.tracks.values().filter(|t| lookup_model(q, t)).map(|t| (t.id, t.attrs.status_code())).collect();
            if lr != mr || n != mr.len() {
                return Some(("C09/lookup/return".into(), json!({"query": format!("{:?}", q), "lib": lr, "model": mr, "lib_len": n})));
            }
            rep.add("ret/lookup/matches", mr.len() as u64);
        }
        SOp::FindUsable => {
            let v = st.find_usable();
            let lr: BTreeSet<(u64, u8)> = v.iter().map(|(i, s)| (*i, status_of(s))).collect();
            let mr: BTreeSet<(u64, u8)> = m.tracks.values().filter(|t| t.attrs.status_code() != 0).map(|t| (t.id, t.attrs.status_code())).collect();
            if lr != mr || v.len() != mr.len() {
                return Some(("C09/find_usable/return".into(), json!({"lib": lr, "model": mr, "lib_len": v.len()})));
            }
            rep.add("ret/find_usable/matches", mr.len() as u64);
        }
        SOp::Clear => {
            st.clear();
            m.tracks.clear();
            rep.count("ret/clear");
        }
    }
    None
}

fn small_alphabet() -> Vec<SOp> {
    let mut a = vec![];
    let vals = [1.0f32, 5.0];
    for id in 1..=3u64 {
        for cls in 0..2u64 {
            for v in vals {
                a.push(SOp::AddTrack(Spec { id, compat: 1, obs: vec![(cls, Some(v), Some(vec![v]))] }));
                a.push(SOp::Add { id, cls, oa: Some(v), feat: None, upd: Some(WUpdate { delta: 1, set_compat: None }) });
            }
            a.push(SOp::Add { id, cls, oa: Some(POISON as f32), feat: None, upd: None });
        }
        a.push(SOp::Add { id, cls: 0, oa: None, feat: None, upd: Some(WUpdate { delta: 1, set_compat: None }) });
        a.push(SOp::Fetch(vec![id]));
        for src in 1..=3u64 {
            for remove in [true, false] {
                a.push(SOp::MergeOwned { dest: id, src, classes: None, remove, hist: true });
            }
        }
        for sid in [1u64, 2, 3, 9] {
            a.push(SOp::MergeExternal { dest: id, src: Spec { id: sid, compat: 1, obs: vec![(0, Some(2.0), None)] }, classes: None, hist: true, noblock: sid == 9 });
        }
    }
    a.push(SOp::Fetch(vec![1, 2]));
    a.push(SOp::Lookup(WLookup::CounterAtLeast(1)));
    a.push(SOp::FindUsable);
    a.push(SOp::Clear);
    a
}

fn gen_spec(rng: &mut Rng, id: u64) -> Spec {
    let mut obs = vec![];
    for _ in 0..rng.usize(4) {
        let oa = if rng.chance(0.8) { Some(if rng.chance(0.03) { POISON as f32 } else { rng.usize(90) as f32 / 10.0 }) } else { None };
        let f = if rng.chance(0.5) || oa.is_none() { Some((0..1 + rng.usize(3)).map(|_| rng.usize(10) as f32).collect()) } else { None };
        obs.push((rng.usize(3) as u64, oa, f));
    }
    Spec { id, compat: 1 + rng.usize(2) as u8, obs }
}

thread_local! { static ID_SHAPE: std::cell::Cell<u8> = std::cell::Cell::new(0); }
/// The logical ids 1..n of a sequence are mapped injectively onto the u64 range: small numbers, ids above 2^32
/// (what new_track_random_id() hands out), ids with equal halves, hashed ids, ids near u64::MAX.
fn mkid(x: u64) -> u64 {
    match ID_SHAPE.with(|c| c.get()) {
        1 => (1u64 << 32) + x,
        2 => (x << 32) | x,
        3 => x.wrapping_mul(0x9E37_79B9_7F4A_7C15),
        4 => u64::MAX - x,
        5 => x << 33,
        _ => x,
    }
}

fn gen_op(rng: &mut Rng, nids: u64) -> SOp {
    let id = mkid(1 + rng.below(nids));
    let classes = |rng: &mut Rng| match rng.usize(4) {
        0 => None,
        1 => Some(vec![]),
        _ => Some((0..1 + rng.usize(3)).map(|_| rng.usize(4) as u64).collect()),
    };
    match rng.usize(20) {
        0..=3 => SOp::AddTrack(gen_spec(rng, id)),
        4..=8 => {
            let oa = if rng.chance(0.7) { Some(if rng.chance(0.04) { POISON as f32 } else { rng.usize(90) as f32 / 10.0 }) } else { None };
            let feat = if rng.chance(0.5) { Some(vec![rng.usize(9) as f32, rng.usize(9) as f32]) } else { None };
            let upd = if rng.chance(0.6) { Some(WUpdate { delta: if rng.chance(0.05) { POISON } else { rng.range(0, 3) }, set_compat: if rng.chance(0.1) { Some(1 + rng.usize(2) as u8) } else { None } }) } else { None };
            SOp::Add { id, cls: rng.usize(3) as u64, oa, feat, upd }
        }
        9 | 10 => SOp::Fetch((0..rng.usize(4)).map(|_| mkid(1 + rng.below(nids))).collect()),
        11..=13 => SOp::MergeOwned { dest: id, src: mkid(1 + rng.below(nids)), classes: classes(rng), remove: rng.chance(0.5), hist: rng.chance(0.6) },
        14 | 15 => {
            let sid = mkid(if rng.chance(0.2) { 1 + rng.below(nids) } else { 100 + rng.below(50) });
            if rng.chance(0.25) {
                // a merge over two classes in a fixed order whose SECOND class makes optimize fail: the first class must
                // be rolled back as well
                let (c1, c2) = if rng.chance(0.5) { (0u64, 1u64) } else { (1, 2) };
                let src = Spec { id: sid, compat: 1, obs: vec![(c1, Some(rng.usize(80) as f32 / 10.0), None), (c2, Some(POISON_MERGE as f32), None)] };
                return SOp::MergeExternal { dest: id, src, classes: Some(vec![c1, c2]), hist: rng.chance(0.6), noblock: rng.chance(0.3) };
            }
            SOp::MergeExternal { dest: id, src: gen_spec(rng, sid), classes: classes(rng), hist: rng.chance(0.6), noblock: rng.chance(0.4) }
        }
        16 => SOp::Lookup(match rng.usize(3) {
            0 => WLookup::CounterAtLeast(rng.range(0, 4)),
            1 => WLookup::HistoryContains(mkid(1 + rng.below(nids))),
            _ => WLookup::HasClass(rng.usize(3) as u64),
        }),
        17 => SOp::FindUsable,
        18 => SOp::NewTrackBuild(id),
        _ => {
            if rng.chance(0.2) {
                SOp::Clear
            } else {
                SOp::FindUsable
            }
        }
    }
}

/// Read-only operations take `&self`: several threads may use them at the same time (the trackers do, through a read
/// lock). On a quiescent store every such call has exactly one right answer - the model's - whoever else is reading.
fn concurrent_readers(st: &Store, m: &MStore, nids: u64, seed: u64) -> Option<Value> {
    let queries: Vec<WLookup> = (0..4i64).map(WLookup::CounterAtLeast).chain((1..=nids).map(|x| WLookup::HistoryContains(mkid(x)))).chain((0..3u64).map(WLookup::HasClass)).collect();
    let expect: Vec<BTreeSet<(u64, u8)>> = queries.iter().map(|q| m.tracks.values().filter(|t| lookup_model(q, t)).map(|t| (t.id, t.attrs.status_code())).collect()).collect();
    let total = m.tracks.len();
    let bad: std::sync::Mutex<Option<Value>> = std::sync::Mutex::new(None);
    std::thread::scope(|sc| {
        for t in 0..4u64 {
            let (queries, expect, bad) = (&queries, &expect, &bad);
            sc.spawn(move || {
                let mut rng = Rng::for_case(seed, t, 77);
                for _ in 0..12 {
                    let k = rng.usize(queries.len() + 1);
                    if k < queries.len() {
                        let r = st.lookup(queries[k].clone());
                        let lr: BTreeSet<(u64, u8)> = r.iter().map(|(i, s)| (*i, status_of(s))).collect();
                        if lr != expect[k] || r.len() != expect[k].len() {
                            *bad.lock().unwrap() = Some(json!({"op": "lookup", "query": format!("{:?}", queries[k]), "lib": lr, "lib_len": r.len(), "model": expect[k], "reader_thread": t}));
                            return;
                        }
                    } else {
                        let n: usize = st.shard_stats().iter().sum();
                        if n != total {
                            *bad.lock().unwrap() = Some(json!({"op": "shard_stats", "lib_sum": n, "model": total, "reader_thread": t}));
                            return;
                        }
                    }
                    if rng.chance(0.3) {
                        std::thread::yield_now();
                    }
                }
            });
        }
    });
    let r = bad.lock().unwrap().take();
    r
}

static WD: std::sync::OnceLock<std::sync::Arc<vh::watchdog::Watchdog>> = std::sync::OnceLock::new();

fn run_sequence(env: &Env, rep: &mut Report, idx: u64, ops: &[SOp], shards: usize, kind: &str) -> bool {
    if let Some(w) = WD.get() {
        w.beat();
    }
    let mut st: Store = TrackStoreBuilder::new(shards).default_attributes(WAttrs::new(1, env.cap, env.plan.clone())).metric(WMetric { state: 0, plan: env.plan.clone() }).notifier(env.notif.clone()).build();
    let mut m = MStore::new(WAttrs::new(1, env.cap, env.mplan.clone()), WMetric { state: 0, plan: env.mplan.clone() });
    for (i, op) in ops.iter().enumerate() {
        let r = step(env, &mut st, &mut m, op, rep);
        let ctx = |v: Value| json!({"kind": kind, "shards": shards, "ops": ops[..=i].iter().map(|o| format!("{:?}", o)).collect::<Vec<_>>(), "failing_step": i, "detail": v});
        if let Some((sig, v)) = r {
            rep.violation(&sig, idx, ctx(v));
            return false;
        }
        if let Some(v) = compare_store(env, &st, &m, shards) {
            let opn = format!("{:?}", op);
            let opn = opn.split(|c| c == '(' || c == ' ' || c == '{').next().unwrap_or("?").to_string();
            rep.violation(&format!("C09/state-after/{}", opn), idx, ctx(v));
            return false;
        }
        rep.count("steps_compared");
        // random sequences: every ~40th step (and after the last one) four threads read the quiescent store at once
        if kind == "random" && (i + 1 == ops.len() || (i * 7 + idx as usize) % 40 == 0) && !m.tracks.is_empty() {
            rep.count("concurrent_reader_phases(4 threads x 12 reads)");
            if let Some(v) = concurrent_readers(&st, &m, 8, idx ^ i as u64) {
                rep.violation("C09/concurrent-readers/wrong-answer-on-quiescent-store", idx, ctx(v));
                return false;
            }
        }
        rep.seen("abstract_states", {
            let mut h = Hasher::new();
            for (id, t) in &m.tracks {
                h.u64(*id).u64(t.attrs.counter as u64).u64(t.obs.values().map(|v| v.len()).sum::<usize>() as u64).u64(t.history.len() as u64);
            }
            h.get()
        });
    }
    true
}

fn main() {
    let cli = Cli::parse();
    let mut rep = Report::new("C09", &cli);
    // a store operation that never returns (a worker gone, a reply never sent) is decided by the quiescence detector
    let wd = if cli.small { None } else { Some(vh::watchdog::Watchdog::start(&cli, "C09", None)) };
    if let Some(w) = &wd {
        let _ = WD.set(w.clone());
        w.arm("exhaustive / sampled short sequences".to_string());
    }
    let env = Env { plan: FaultPlan::new(), mplan: FaultPlan::new(), notif: CountingNotifier::default(), cap: 4 };
    let alpha = small_alphabet();
    let a = alpha.len() as u64;
    rep.note("rule", json!(format!("two workloads. (1) exhaustive: every operation sequence of length <= L over a small alphabet of {} operations (ids 1..3, classes 0..1, two observation values, poison observations that make optimize fail, owned / external / non-blocking merges incl. same-track and missing ids, fetch, lookup, find_usable, clear), shards 1 and 2; L = 2 in the quick tier plus a random sample of length-3 sequences, L = 3 complete in the thorough tier. (2) random sequences of 50..400 operations over 8 ids (in half of the sequences mapped injectively onto wide u64 ids: 2^32+x, x<<32|x, hashed, u64::MAX-x, x<<33), 3 classes, shards 1..5. After EVERY operation the return value is compared with a sequential model (a map id -> track whose callbacks are the workload's own) and every shard's contents are read through get_store() and compared track by track (attributes, observations per class, merge history, metric state): every track of the model must be found, unchanged, in the shard get_store(id) hands out, that shard must hold no track the model does not know, and the per-shard counts must sum to the model's size (which shard an id maps to is left to the store). add() on a missing id is additionally compared with new_track(id)...build() + add_track in a scratch store. In the random sequences every ~40th step four threads issue lookup (all query kinds) / shard_stats concurrently (the &self operations) against the quiescent store; each call must return the answer of the model. Non-trivial: sequences in which at least one merge or failing callback occurs; distinct by sequence hash.", a)));
    rep.note("assumptions", json!(["workload callbacks are deterministic functions of their arguments (data-driven failures)", "merge_external_noblock: the result is awaited before the next operation, or the future is dropped at once and a blocking lookup serves as barrier"]));
    // ---------- exhaustive part
    let full3 = cli.thorough() && !cli.small;
    let mut seq_index: u64 = 0;
    let mut run_ex = |ops: Vec<SOp>, rep: &mut Report, seq_index: &mut u64| {
        let my = *seq_index % cli.nshards == cli.shard;
        *seq_index += 1;
        if !my {
            return;
        }
        let idx = (1u64 << 40) | (*seq_index - 1);
        if let Some(r) = cli.replay_index {
            if r != idx {
                return;
            }
        }
        for shards in [1usize, 2] {
            rep.eval();
            rep.count("exhaustive_sequences_executed");
            run_sequence(&env, rep, idx, &ops, shards, "exhaustive");
        }
        let mut h = Hasher::new();
        h.str(&format!("{:?}", ops));
        rep.nontrivial(h.get());
    };
    if !cli.small {
        for i in 0..a {
            run_ex(vec![alpha[i as usize].clone()], &mut rep, &mut seq_index);
        }
        for i in 0..a {
            for j in 0..a {
                run_ex(vec![alpha[i as usize].clone(), alpha[j as usize].clone()], &mut rep, &mut seq_index);
            }
        }
        if full3 {
            for i in 0..a {
                for j in 0..a {
                    for k in 0..a {
                        run_ex(vec![alpha[i as usize].clone(), alpha[j as usize].clone(), alpha[k as usize].clone()], &mut rep, &mut seq_index);
                    }
                }
            }
            rep.note("exhaustive", json!(true));
            rep.note("exhaustive_bound", json!(format!("all {}^1 + {}^2 + {}^3 sequences x 2 shard counts", a, a, a)));
        } else {
            // random sample of length-3 sequences
            let n3 = cli.cases(100_000, 0);
            for s in 0..n3 {
                let mut rng = Rng::for_case(cli.seed, cli.shard, (2u64 << 40) | s);
                let ops: Vec<SOp> = (0..3).map(|_| alpha[rng.usize(alpha.len())].clone()).collect();
                let idx = (2u64 << 40) | s;
                if let Some(r) = cli.replay_index {
                    if r != idx {
                        continue;
                    }
                }
                for shards in [1usize, 2] {
                    rep.eval();
                    rep.count("sampled_length3_sequences_executed");
                    run_sequence(&env, &mut rep, idx, &ops, shards, "sampled-length-3");
                }
                let mut h = Hasher::new();
                h.str(&format!("{:?}", ops));
                rep.nontrivial(h.get());
            }
            rep.note("exhaustive_bound", json!(format!("all {}^1 + {}^2 sequences x 2 shard counts exhaustively; length 3 sampled", a, a)));
        }
    }
    // ---------- random long sequences
    let n = cli.cases(1_200, 20_000);
    for s in cli.index_range(n) {
        if s >> 40 != 0 {
            continue;
        }
        let mut rng = Rng::for_case(cli.seed, cli.shard, s);
        let len = if cli.small { 30 } else { 50 + rng.usize(351) };
        let shards = 1 + rng.usize(5);
        let nids = 2 + rng.below(7);
        let shape = if rng.chance(0.5) { 0 } else { 1 + rng.usize(5) as u8 };
        ID_SHAPE.with(|c| c.set(shape));
        if shape != 0 {
            rep.count("random_sequences_with_wide_ids(>= 2^32)");
        }
        let ops: Vec<SOp> = (0..len).map(|_| gen_op(&mut rng, nids)).collect();
        rep.eval();
        rep.count("random_sequences_executed");
        if let Some(w) = &wd {
            w.arm(format!("random sequence {} shards {} first ops {:?}", s, shards, &ops[..ops.len().min(6)]));
        }
        run_sequence(&env, &mut rep, s, &ops, shards, "random");
        let mut h = Hasher::new();
        h.str(&format!("{:?}", &ops[..ops.len().min(40)]));
        rep.nontrivial(h.get());
        if rep.want_sample() {
            rep.sample(json!({"shards": shards, "first_ops": ops.iter().take(8).map(|o| format!("{:?}", o)).collect::<Vec<_>>(), "length": len}));
        }
    }
    let _ = Track::<WAttrs, WMetric, WObs, CountingNotifier>::get_track_id;
    rep.finish();
}
