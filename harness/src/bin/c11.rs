//! C11 — track updates are atomic under callback failures; merge history intact (fault enumeration).
use similari::prelude::{ObservationBuilder, TrackStoreBuilder};
use similari::store::TrackStore;
use similari::track::Track;
use std::sync::atomic::Ordering;
use std::sync::Arc;
use vh::rng::Hasher;
use vh::storemodel::*;
use vh::{json, Cli, Report, Rng, Value};

type Store = TrackStore<WAttrs, WMetric, WObs, CountingNotifier>;

#[derive(Clone, Debug)]
struct TrackSpec {
    id: u64,
    compat: u8,
    counter: i64,
    obs: Vec<(u64, Option<f32>, Option<Vec<f32>>)>,
    prior_merges: Vec<(u64, bool)>, // (id of merged track, with history)
}

#[derive(Clone, Debug)]
enum Op {
    AddObservation { cls: u64, oa: Option<f32>, feat: Option<Vec<f32>>, upd: Option<WUpdate> },
    Merge { classes: Vec<u64>, hist: bool },
    StoreAdd { existing: bool, cls: u64, oa: Option<f32>, feat: Option<Vec<f32>>, upd: Option<WUpdate> },
    MergeExternal { classes: Option<Vec<u64>>, hist: bool },
    MergeOwned { classes: Option<Vec<u64>>, hist: bool, remove: bool },
}

struct Env {
    plan: Arc<FaultPlan>,
    notif: CountingNotifier,
    cap: usize,
}

fn build_lib(env: &Env, s: &TrackSpec) -> WTrack {
    let mut t: WTrack = Track::new(s.id, WMetric { state: 0, plan: env.plan.clone() }, WAttrs::new(s.compat, env.cap, env.plan.clone()), env.notif.clone());
    if s.counter != 0 {
        t.add_observation(0, None, None, Some(WUpdate { delta: s.counter, set_compat: None })).unwrap();
    }
    for (c, oa, f) in &s.obs {
        t.add_observation(*c, oa.map(WObs), f.as_ref().map(|v| mk_feature(v)), None).unwrap();
    }
    for (mid, h) in &s.prior_merges {
        let mut o: WTrack = Track::new(*mid, WMetric { state: 0, plan: env.plan.clone() }, WAttrs::new(s.compat, env.cap, env.plan.clone()), env.notif.clone());
        o.add_observation(0, Some(WObs(0.5)), None, None).unwrap();
        t.merge(&o, &[0], *h).unwrap();
    }
    t
}

fn build_model(env: &Env, s: &TrackSpec, mplan: &Arc<FaultPlan>) -> MTrack {
    let mut t = MTrack::new(s.id, WAttrs::new(s.compat, env.cap, mplan.clone()), WMetric { state: 0, plan: mplan.clone() });
    if s.counter != 0 {
        t.add_observation(0, None, None, Some(&WUpdate { delta: s.counter, set_compat: None })).unwrap();
    }
    for (c, oa, f) in &s.obs {
        t.add_observation(*c, *oa, f.clone(), None).unwrap();
    }
    for (mid, h) in &s.prior_merges {
        let mut o = MTrack::new(*mid, WAttrs::new(s.compat, env.cap, mplan.clone()), WMetric { state: 0, plan: mplan.clone() });
        o.add_observation(0, Some(0.5), None, None).unwrap();
        t.merge(&o, &[0], *h).unwrap();
    }
    t
}

fn gen_spec(rng: &mut Rng, id: u64) -> TrackSpec {
    let ncls = rng.usize(4);
    let mut classes: Vec<u64> = vec![0, 1, 2, 3];
    rng.shuffle(&mut classes);
    classes.truncate(ncls);
    let mut obs = vec![];
    for c in &classes {
        for _ in 0..1 + rng.usize(3) {
            let oa = if rng.chance(0.8) { Some((rng.usize(90) as f32) / 10.0) } else { None };
            let f = if rng.chance(0.6) || oa.is_none() { Some(vec![rng.usize(10) as f32, rng.usize(10) as f32]) } else { None };
            obs.push((*c, oa, f));
        }
    }
    // a class that the track knows but that holds no observation (its only observation was discarded by optimize)
    if rng.chance(0.25) {
        let c = rng.usize(4) as u64;
        if !obs.iter().any(|o: &(u64, Option<f32>, Option<Vec<f32>>)| o.0 == c) {
            obs.push((c, Some(-1.0), None));
        }
    }
    let pm = if rng.chance(0.5) { (0..1 + rng.usize(3)).map(|i| (1000 + id * 10 + i as u64, rng.chance(0.7))).collect() } else { vec![] };
    TrackSpec { id, compat: 1, counter: rng.range(0, 5), obs, prior_merges: pm }
}

fn gen_classes(rng: &mut Rng, dest: &TrackSpec, src: &TrackSpec) -> Vec<u64> {
    // present in both / one / neither / empty / with repeats
    let d: Vec<u64> = dest.obs.iter().map(|o| o.0).collect();
    let s: Vec<u64> = src.obs.iter().map(|o| o.0).collect();
    let mut out = vec![];
    match rng.usize(6) {
        0 => {}
        1 => out.push(7),
        2 => {
            for c in 0..4 {
                if d.contains(&c) && s.contains(&c) {
                    out.push(c);
                }
            }
        }
        3 => {
            for c in 0..4 {
                if d.contains(&c) != s.contains(&c) {
                    out.push(c);
                }
            }
            out.push(7);
        }
        4 => {
            out = vec![0, 1, 2, 3];
            rng.shuffle(&mut out);
            out.truncate(1 + rng.usize(4));
            let r = out[0];
            out.push(r); // repeat
        }
        _ => {
            out = vec![0, 1, 2, 3, 7];
            rng.shuffle(&mut out);
            out.truncate(1 + rng.usize(5));
        }
    }
    out
}

fn new_store(env: &Env, shards: usize) -> Store {
    TrackStoreBuilder::new(shards)
        .default_attributes(WAttrs::new(1, env.cap, env.plan.clone()))
        .metric(WMetric { state: 0, plan: env.plan.clone() })
        .notifier(env.notif.clone())
        .build()
}

fn snap_q(env: &Env, t: &WTrack) -> Snap {
    let n = env.notif.count.load(Ordering::SeqCst);
    let s = snap(t);
    env.notif.count.store(n, Ordering::SeqCst);
    s
}

fn stored(env: &Env, st: &Store, id: u64) -> Option<Snap> {
    let g = st.get_store(id as usize);
    g.get(&id).map(|t| snap_q(env, t))
}

struct Outcome {
    ok: bool,
    notifications: u64,
    dest: Option<Snap>,
    src: Option<Snap>,
    extra: Value,
}

/// run the operation once against the real code from the given pre-state; `fail_at` = -1 for a fault-free run
fn execute(env: &Env, op: &Op, dspec: &TrackSpec, sspec: &TrackSpec, shards: usize, fail_at: i64) -> (Outcome, i64) {
    let mut dest = build_lib(env, dspec);
    let src = build_lib(env, sspec);
    match op {
        Op::AddObservation { cls, oa, feat, upd } => {
            let n0 = env.notif.count.load(Ordering::SeqCst);
            env.plan.arm(fail_at);
            let r = dest.add_observation(*cls, oa.map(WObs), feat.as_ref().map(|v| mk_feature(v)), upd.clone());
            let calls = env.plan.disarm();
            let n1 = env.notif.count.load(Ordering::SeqCst);
            (Outcome { ok: r.is_ok(), notifications: n1 - n0, dest: Some(snap_q(env, &dest)), src: None, extra: json!(null) }, calls)
        }
        Op::Merge { classes, hist } => {
            let n0 = env.notif.count.load(Ordering::SeqCst);
            env.plan.arm(fail_at);
            let r = dest.merge(&src, classes, *hist);
            let calls = env.plan.disarm();
            let n1 = env.notif.count.load(Ordering::SeqCst);
            (Outcome { ok: r.is_ok(), notifications: n1 - n0, dest: Some(snap_q(env, &dest)), src: Some(snap_q(env, &src)), extra: json!(null) }, calls)
        }
        Op::StoreAdd { existing, cls, oa, feat, upd } => {
            let mut st = new_store(env, shards);
            if *existing {
                st.add_track(dest).unwrap();
            }
            st.add_track(src).unwrap();
            let n0 = env.notif.count.load(Ordering::SeqCst);
            env.plan.arm(fail_at);
            let r = st.add(dspec.id, *cls, oa.map(WObs), feat.as_ref().map(|v| mk_feature(v)), upd.clone());
            let calls = env.plan.disarm();
            let n1 = env.notif.count.load(Ordering::SeqCst);
            let o = Outcome { ok: r.is_ok(), notifications: n1 - n0, dest: stored(env, &st, dspec.id), src: stored(env, &st, sspec.id), extra: json!({"stored": st.shard_stats().iter().sum::<usize>()}) };
            (o, calls)
        }
        Op::MergeExternal { classes, hist } => {
            let mut st = new_store(env, shards);
            st.add_track(dest).unwrap();
            let n0 = env.notif.count.load(Ordering::SeqCst);
            env.plan.arm(fail_at);
            let r = st.merge_external(dspec.id, &src, classes.as_deref(), *hist);
            let calls = env.plan.disarm();
            let n1 = env.notif.count.load(Ordering::SeqCst);
            let o = Outcome { ok: r.is_ok(), notifications: n1 - n0, dest: stored(env, &st, dspec.id), src: Some(snap_q(env, &src)), extra: json!({"stored": st.shard_stats().iter().sum::<usize>()}) };
            (o, calls)
        }
        Op::MergeOwned { classes, hist, remove } => {
            let mut st = new_store(env, shards);
            st.add_track(dest).unwrap();
            st.add_track(src).unwrap();
            let n0 = env.notif.count.load(Ordering::SeqCst);
            env.plan.arm(fail_at);
            let r = st.merge_owned(dspec.id, sspec.id, classes.as_deref(), *remove, *hist);
            let calls = env.plan.disarm();
            let n1 = env.notif.count.load(Ordering::SeqCst);
            let returned = match &r {
                Ok(Some(t)) => Some(snap_q(env, t)),
                _ => None,
            };
            let o = Outcome { ok: r.is_ok(), notifications: n1 - n0, dest: stored(env, &st, dspec.id), src: stored(env, &st, sspec.id), extra: json!({"stored": st.shard_stats().iter().sum::<usize>(), "returned_source": returned.map(|s| format!("{:?}", s))}) };
            (o, calls)
        }
    }
}

fn opname(op: &Op) -> &'static str {
    match op {
        Op::AddObservation { .. } => "add_observation",
        Op::Merge { .. } => "Track::merge",
        Op::StoreAdd { existing: true, .. } => "TrackStore::add(existing)",
        Op::StoreAdd { existing: false, .. } => "TrackStore::add(missing)",
        Op::MergeExternal { .. } => "merge_external",
        Op::MergeOwned { remove: true, .. } => "merge_owned(remove)",
        Op::MergeOwned { remove: false, .. } => "merge_owned(keep)",
    }
}

fn main() {
    let cli = Cli::parse();
    let mut rep = Report::new("C11", &cli);
    rep.note("rule", json!("instance = (operation in {add_observation, Track::merge, TrackStore::add existing/missing, merge_external, merge_owned remove/keep}, destination and source tracks with 0..3 feature classes and 0..3 prior merges, requested class list present in both / one / neither / empty / with repeats, history flag). Each instance is first run fault-free from a freshly built pre-state (learns the number N of user-callback invocations; checks Ok, exactly one notification, post-state == sequential model incl. the merge-history rule), then re-run once for EVERY k in 0..N with the k-th callback invocation (update.apply / attributes.merge / metric.optimize, each of which mutates its arguments before failing) made to fail: result must be Err, no notification, and attributes / observations of every class / metric state / merge history / feature classes must equal the pre-state; for store operations both tracks must still be stored and unchanged. exhaustive per instance. Non-trivial instance: N >= 1; distinct by hash of the instance."));
    rep.note("assumptions", json!(["the workload's callbacks are the only fallible steps", "metric state is observed through a probe observation on a clone (optimize copies the metric state into the attributes)", "TrackStore::add on a missing id: creation notifications of the never-stored track are not judged"]));
    rep.note("exhaustive", json!(true));
    let env = Env { plan: FaultPlan::new(), notif: CountingNotifier::default(), cap: 4 };
    let mplan = FaultPlan::new();
    let n = cli.cases(30_000, 300_000);
    for idx in cli.index_range(n) {
        let mut rng = Rng::for_case(cli.seed, cli.shard, idx);
        let dspec = gen_spec(&mut rng, 1);
        let sspec = gen_spec(&mut rng, 2);
        let shards = 1 + rng.usize(3);
        let gen_obs = |rng: &mut Rng| {
            let oa = if rng.chance(0.7) { Some((rng.usize(90) as f32) / 10.0) } else { None };
            let feat = if rng.chance(0.5) { Some(vec![rng.usize(9) as f32]) } else { None };
            let upd = if rng.chance(0.6) { Some(WUpdate { delta: rng.range(1, 4), set_compat: None }) } else { None };
            (rng.usize(4) as u64, oa, feat, upd)
        };
        let op = match rng.usize(7) {
            0 => {
                let (cls, oa, feat, upd) = gen_obs(&mut rng);
                Op::AddObservation { cls, oa, feat, upd }
            }
            1 => Op::Merge { classes: gen_classes(&mut rng, &dspec, &sspec), hist: rng.chance(0.6) },
            2 | 3 => {
                let (cls, oa, feat, upd) = gen_obs(&mut rng);
                Op::StoreAdd { existing: rng.chance(0.6), cls, oa, feat, upd }
            }
            4 => {
                let c = gen_classes(&mut rng, &dspec, &sspec);
                Op::MergeExternal { classes: if rng.chance(0.3) { None } else { Some(c) }, hist: rng.chance(0.6) }
            }
            _ => {
                let c = gen_classes(&mut rng, &dspec, &sspec);
                Op::MergeOwned { classes: if rng.chance(0.3) { None } else { Some(c) }, hist: rng.chance(0.6), remove: rng.chance(0.5) }
            }
        };
        rep.eval();
        let name = opname(&op);
        rep.count(&format!("instances/{}", name));
        let inst = json!({"op": format!("{:?}", op), "dest": format!("{:?}", dspec), "src": format!("{:?}", sspec), "shards": shards});
        // pre-state snapshots
        let pre_d = snap_q(&env, &build_lib(&env, &dspec));
        let pre_s = snap_q(&env, &build_lib(&env, &sspec));
        // model prediction of the successful outcome
        let mut md = build_model(&env, &dspec, &mplan);
        let ms = build_model(&env, &sspec, &mplan);
        if md.snap() != pre_d || ms.snap() != pre_s {
            rep.violation("C11/pre-state-differs-from-model", idx, json!({"inst": inst, "lib": format!("{:?}", pre_d), "model": format!("{:?}", md.snap())}));
            continue;
        }
        let mut expect_dest_present = true;
        let model_ok: bool = match &op {
            Op::AddObservation { cls, oa, feat, upd } => md.add_observation(*cls, *oa, feat.clone(), upd.as_ref()).is_ok(),
            Op::Merge { classes, hist } => md.merge(&ms, classes, *hist).is_ok(),
            Op::StoreAdd { existing, cls, oa, feat, upd } => {
                if !*existing {
                    md = MTrack::new(dspec.id, WAttrs::new(1, env.cap, mplan.clone()), WMetric { state: 0, plan: mplan.clone() });
                }
                md.add_observation(*cls, *oa, feat.clone(), upd.as_ref()).is_ok()
            }
            Op::MergeExternal { classes, hist } | Op::MergeOwned { classes, hist, .. } => {
                let cl: Vec<u64> = match classes {
                    Some(c) if !c.is_empty() => c.clone(),
                    _ => ms.obs.keys().cloned().collect(),
                };
                md.merge(&ms, &cl, *hist).is_ok()
            }
        };
        assert!(model_ok);
        let _ = &mut expect_dest_present;
        // ---- fault-free run
        let (o, ncalls) = execute(&env, &op, &dspec, &sspec, shards, -1);
        let sites = env.plan.log.lock().unwrap().clone();
        if !o.ok {
            rep.violation(&format!("C11/{}/fault-free-run-failed", name), idx, inst.clone());
            continue;
        }
        let notif_ok = match &op {
            Op::StoreAdd { existing: false, .. } => o.notifications >= 1 && o.notifications <= 2,
            _ => o.notifications == 1,
        };
        if !notif_ok {
            rep.violation(&format!("C11/{}/success-notifications", name), idx, json!({"inst": inst, "notifications": o.notifications}));
        }
        match &o.dest {
            Some(d) if *d == md.snap() => {}
            other => {
                let hist_only = other.as_ref().map(|d| {
                    let mut x = d.clone();
                    x.history = md.history.clone();
                    x == md.snap()
                }).unwrap_or(false);
                let sig = if hist_only { format!("C11/{}/success-merge-history", name) } else { format!("C11/{}/success-post-state", name) };
                rep.violation(&sig, idx, json!({"inst": inst, "lib": format!("{:?}", other), "expected": format!("{:?}", md.snap())}));
            }
        }
        // source handling
        match &op {
            Op::MergeOwned { remove: true, .. } => {
                if o.src.is_some() {
                    rep.violation("C11/merge_owned(remove)/source-still-stored", idx, inst.clone());
                }
            }
            Op::Merge { .. } | Op::MergeExternal { .. } | Op::MergeOwned { remove: false, .. } | Op::StoreAdd { .. } => {
                if o.src.as_ref() != Some(&pre_s) {
                    rep.violation(&format!("C11/{}/source-changed", name), idx, json!({"inst": inst, "src": format!("{:?}", o.src), "pre": format!("{:?}", pre_s)}));
                }
            }
            _ => {}
        }
        rep.add("fault_positions", ncalls as u64);
        if ncalls >= 1 {
            let mut h = Hasher::new();
            h.str(&inst.to_string());
            rep.nontrivial(h.get());
        }
        // ---- every fault position
        for k in 0..ncalls {
            let (f, _) = execute(&env, &op, &dspec, &sspec, shards, k);
            let site = sites.get(k as usize).cloned().unwrap_or("?");
            rep.count(&format!("fault_runs/{}", site));
            rep.seen("fault_position_kinds", {
                let mut h = Hasher::new();
                h.str(name).str(site).u64(k as u64);
                h.get()
            });
            let ctx = json!({"inst": inst, "fail_at": k, "site": site, "callback_sequence": sites});
            if f.ok {
                rep.violation(&format!("C11/{}/fault-at-{}/returned-ok", name, site), idx, ctx.clone());
            }
            let missing_dest_op = matches!(op, Op::StoreAdd { existing: false, .. });
            if !missing_dest_op && f.notifications != 0 {
                rep.violation(&format!("C11/{}/fault-at-{}/notification-emitted", name, site), idx, json!({"ctx": ctx, "notifications": f.notifications}));
            }
            if missing_dest_op {
                if f.dest.is_some() {
                    rep.violation(&format!("C11/{}/fault-at-{}/track-created", name, site), idx, ctx.clone());
                }
            } else if f.dest.as_ref() != Some(&pre_d) {
                let what = match &f.dest {
                    None => "destination-missing".to_string(),
                    Some(d) => {
                        let mut parts = vec![];
                        if d.attrs != pre_d.attrs {
                            parts.push("attributes");
                        }
                        if d.obs != pre_d.obs {
                            parts.push("observations");
                        }
                        if d.history != pre_d.history {
                            parts.push("merge-history");
                        }
                        if d.metric_state != pre_d.metric_state {
                            parts.push("metric-state");
                        }
                        parts.join("+")
                    }
                };
                rep.violation(&format!("C11/{}/fault-at-{}/not-rolled-back/{}", name, site, what), idx, json!({"ctx": ctx, "after": format!("{:?}", f.dest), "before": format!("{:?}", pre_d)}));
            }
            if !matches!(op, Op::AddObservation { .. }) && f.src.as_ref() != Some(&pre_s) {
                rep.violation(&format!("C11/{}/fault-at-{}/source-lost-or-changed", name, site), idx, json!({"ctx": ctx, "after": format!("{:?}", f.src), "before": format!("{:?}", pre_s)}));
            }
        }
        if rep.want_sample() && ncalls >= 3 {
            rep.sample(json!({"instance": inst, "callback_sequence_of_the_fault_free_run": sites, "fault_runs": ncalls}));
        }
    }
    rep.finish();
}
