//! C16 — feature packing and distance functions match the scalar definitions.
use similari::distance::{cosine, euclidean};
use similari::track::utils::FromVec;
use similari::track::Feature;
use vh::rng::Hasher;
use vh::{json, Cli, Report, Rng};

const LANES: usize = 8;

fn gen_vec(rng: &mut Rng, n: usize) -> Vec<f32> {
    // magnitude class per vector, occasional zeros / sign patterns
    let mag = rng.log_uniform(1e-3, 1e3);
    (0..n)
        .map(|_| {
            if rng.chance(0.05) {
                0.0
            } else {
                (rng.normal() * mag) as f32
            }
        })
        .collect()
}

fn pad(v: &[f32]) -> Vec<f32> {
    let mut p = v.to_vec();
    while p.len() % LANES != 0 {
        p.push(0.0);
    }
    p
}

fn ref_euclid(a: &[f32], b: &[f32]) -> f64 {
    let n = a.len().min(b.len());
    (0..n).map(|i| (a[i] as f64 - b[i] as f64).powi(2)).sum::<f64>().sqrt()
}

fn ref_cos(a: &[f32], b: &[f32]) -> Option<f64> {
    let n = a.len().min(b.len());
    let dot: f64 = (0..n).map(|i| a[i] as f64 * b[i] as f64).sum();
    let na: f64 = (0..n).map(|i| (a[i] as f64).powi(2)).sum();
    let nb: f64 = (0..n).map(|i| (b[i] as f64).powi(2)).sum();
    if na == 0.0 || nb == 0.0 {
        None
    } else {
        Some(dot / (na * nb).sqrt())
    }
}

fn hash_vec(h: &mut Hasher, v: &[f32]) {
    h.u64(v.len() as u64);
    for x in v {
        h.f32(*x);
    }
}

fn main() {
    let cli = Cli::parse();
    let mut rep = Report::new("C16", &cli);
    rep.note("rule", json!("cases = (length n in 0..=130 [every n visited by every shard], draw k): random f32 vectors x,y,z of length n (plus an unequal-length partner), magnitudes log-uniform 1e-3..1e3, 5% zeros; every 4th draw y is a relative perturbation (1e-6..1e-2) of x; a case is non-trivial when n>0 and x,y are non-zero and different; distinct = FNV hash of (n, x, y) bits. Oracles: round-trip == input zero-padded to a multiple of 8; euclidean/cosine vs f64 textbook on the common packed prefix (rel 1e-5 + abs 1e-6 / abs 2e-5 for cosine); bit-level symmetry; d(x,x)==0; triangle inequality; |cos|<=1+1e-6; parallel/opposite = +-1; positive-scale invariance"));
    rep.note("assumptions", json!(["f64 evaluation of the textbook formula is the reference", "vectors hold finite values of magnitude <= ~5e3 (the property's 'several magnitudes')"]));
    let max_len = if cli.small { cli.param_u64("maxlen", 17) as usize } else { 130 };
    let draws = cli.cases(200 * 8, 3000 * 16); // per shard: draws per length
    let mut idx: u64 = 0;
    let mut lengths_seen = std::collections::BTreeSet::new();
    for n in 0..=max_len {
        for k in 0..draws {
            let case_index = (n as u64) << 32 | k;
            idx += 1;
            if let Some(r) = cli.replay_index {
                if r != case_index {
                    continue;
                }
            }
            let mut rng = Rng::for_case(cli.seed, cli.shard, case_index);
            let x = gen_vec(&mut rng, n);
            let y = gen_vec(&mut rng, n);
            // every 4th draw: y is a small perturbation of x (distance tiny relative to the norms - the regime in which
            // a |a|^2 + |b|^2 - 2ab style evaluation cancels catastrophically)
            let y = if k % 4 == 3 && n > 0 {
                let rel = rng.log_uniform(1e-6, 1e-2);
                x.iter().map(|v| (*v as f64 * (1.0 + rel * rng.normal()) + if *v == 0.0 { 0.0 } else { 0.0 }) as f32).collect()
            } else {
                y
            };
            let z = gen_vec(&mut rng, n);
            let m = rng.usize(max_len + 1);
            let u = gen_vec(&mut rng, m);
            rep.eval();
            lengths_seen.insert(n);
            // both public constructors (borrowed and owned vector) are exercised for every role: the choice is a
            // function of the draw index, so every length sees both for every role
            let mk = |v: &Vec<f32>, owned: bool| -> Feature { if owned { Feature::from_vec(v.clone()) } else { Feature::from_vec(v) } };
            let fx = mk(&x, k & 1 == 1);
            let fy = mk(&y, k & 1 == 0);
            let fz = mk(&z, k & 2 == 2);
            let fu = mk(&u, k & 2 == 0);
            rep.count(if k & 1 == 1 { "roundtrips_owned_constructor" } else { "roundtrips_borrowed_constructor" });
            let detail = |what: &str, got: f64, exp: f64| json!({"what": what, "n": n, "m": m, "got": got, "expected": exp, "x": x, "y": y});
            // round trip
            for (v, f) in [(&x, &fx), (&u, &fu), (&y, &fy), (&z, &fz)] {
                let back: Vec<f32> = Vec::from_vec(f);
                let exp = pad(v);
                let ok = if v.is_empty() {
                    back.is_empty() || back == vec![0.0; LANES]
                } else {
                    back.len() == exp.len() && back.iter().zip(&exp).all(|(a, b)| a.to_bits() == b.to_bits())
                };
                if !ok {
                    rep.violation("C16/roundtrip", case_index, json!({"input": v, "back": back}));
                }
            }
            // reference inputs = the packed contents (validated by the round-trip oracle above; for n = 0 the
            // statement allows either no block or one zero block)
            let (px, py, pu): (Vec<f32>, Vec<f32>, Vec<f32>) = (Vec::from_vec(&fx), Vec::from_vec(&fy), Vec::from_vec(&fu));
            // euclidean
            let checks: [(&str, &Feature, &Feature, &Vec<f32>, &Vec<f32>); 2] =
                [("equal-length", &fx, &fy, &px, &py), ("unequal-length", &fx, &fu, &px, &pu)];
            for (name, fa, fb, pa, pb) in checks {
                let d = euclidean(fa, fb) as f64;
                let e = ref_euclid(pa, pb);
                let err = (d - e).abs();
                rep.max("euclid_rel_err", err / e.max(1e-30));
                if !(err <= 1e-5 * e + 1e-6) {
                    rep.violation(&format!("C16/euclidean/{}", name), case_index, detail("euclidean", d, e));
                }
                let d2 = euclidean(fb, fa);
                if d2.to_bits() != (d as f32).to_bits() {
                    rep.violation("C16/euclidean/asymmetric", case_index, detail("euclid sym", d2 as f64, d));
                }
                if let Some(c) = ref_cos(pa, pb) {
                    let g = cosine(fa, fb) as f64;
                    rep.max("cosine_abs_err", (g - c).abs());
                    if !((g - c).abs() <= 2e-5) {
                        rep.violation(&format!("C16/cosine/{}", name), case_index, detail("cosine", g, c));
                    }
                    if !(g.abs() <= 1.0 + 1e-6) {
                        rep.violation("C16/cosine/range", case_index, detail("cosine range", g, c));
                    }
                    let g2 = cosine(fb, fa);
                    if g2.to_bits() != (g as f32).to_bits() {
                        rep.violation("C16/cosine/asymmetric", case_index, detail("cos sym", g2 as f64, g));
                    }
                }
            }
            // identity
            let dxx = euclidean(&fx, &fx);
            if dxx != 0.0 {
                rep.violation("C16/euclidean/identity", case_index, detail("d(x,x)", dxx as f64, 0.0));
            }
            // triangle
            let (dxy, dyz, dxz) = (euclidean(&fx, &fy) as f64, euclidean(&fy, &fz) as f64, euclidean(&fx, &fz) as f64);
            if !(dxz <= (dxy + dyz) * (1.0 + 1e-5) + 1e-6) {
                rep.violation("C16/euclidean/triangle", case_index, json!({"dxy": dxy, "dyz": dyz, "dxz": dxz, "x": x, "y": y, "z": z}));
            }
            rep.count("triangle_checks");
            // cosine: parallel / opposite / scale
            let nonzero = px.iter().any(|v| *v != 0.0);
            if nonzero {
                let a = rng.log_uniform(1e-3, 1e3) as f32;
                let b = rng.log_uniform(1e-3, 1e3) as f32;
                let sx: Vec<f32> = x.iter().map(|v| v * a).collect();
                let nx: Vec<f32> = x.iter().map(|v| -v * b).collect();
                let fsx = Feature::from_vec(&sx);
                let fnx = Feature::from_vec(&nx);
                let nz = |v: &Vec<f32>| v.iter().any(|t| *t != 0.0 && t.is_finite());
                if nz(&sx) && nz(&nx) {
                    let cp = cosine(&fx, &fsx) as f64;
                    let co = cosine(&fx, &fnx) as f64;
                    rep.max("parallel_abs_err", (cp - 1.0).abs().max((co + 1.0).abs()));
                    if !((cp - 1.0).abs() <= 2e-5) {
                        rep.violation("C16/cosine/parallel", case_index, detail("parallel", cp, 1.0));
                    }
                    if !((co + 1.0).abs() <= 2e-5) {
                        rep.violation("C16/cosine/opposite", case_index, detail("opposite", co, -1.0));
                    }
                    rep.count("parallel_opposite_checks");
                    if py.iter().any(|v| *v != 0.0) {
                        let sy: Vec<f32> = y.iter().map(|v| v * b).collect();
                        if nz(&sy) {
                            let c0 = cosine(&fx, &fy) as f64;
                            let c1 = cosine(&fsx, &Feature::from_vec(&sy)) as f64;
                            rep.max("scale_abs_err", (c0 - c1).abs());
                            if !((c0 - c1).abs() <= 4e-5) {
                                rep.violation("C16/cosine/scale", case_index, json!({"c0": c0, "c1": c1, "a": a, "b": b, "x": x, "y": y}));
                            }
                            rep.count("scale_checks");
                        }
                    }
                }
            }
            if n > 0 && nonzero && py.iter().any(|v| *v != 0.0) && x != y {
                let mut h = Hasher::new();
                hash_vec(&mut h, &x);
                hash_vec(&mut h, &y);
                rep.nontrivial(h.get());
            }
            if rep.want_sample() && n == 11 && k == 0 {
                rep.sample(json!({"n": n, "x": x, "y": y, "euclidean": euclidean(&fx, &fy), "cosine": cosine(&fx, &fy), "unequal_partner_len": m}));
            }
        }
    }
    let _ = idx;
    rep.add("lengths_covered", 0);
    if cli.shard == 0 {
        rep.add("lengths_covered", lengths_seen.len() as u64);
    }
    rep.note("exhaustive", json!(false));
    rep.note("lengths", json!(format!("every length 0..={} (exhaustive in the length), {} random draws per length per process", max_len, draws)));
    rep.finish();
}
