//! C20 — spatio-temporal constraints are a pure, monotone filter on candidate pairs.
use similari::trackers::spatio_temporal_constraints::SpatioTemporalConstraints;
use std::collections::{HashMap, HashSet};
use vh::posref::{check_positional, check_visual_call, dist_in_2r, limit_for_gap, VVerdict, Verdict};
use vh::rng::Hasher;
use vh::trk::*;
use vh::{json, Cli, Report, Rng};

const LIMITS: [f32; 4] = [0.5, 1.0, 2.0, 4.0];

fn tables(cli: &Cli, rep: &mut Report) {
    let entries: Vec<(usize, f32)> = (0..=8usize).flat_map(|g| LIMITS.iter().map(move |l| (g, *l))).collect();
    let ne = entries.len();
    let dists: [f32; 9] = [0.0, 0.25, 0.5, 0.50001, 0.99999, 1.0, 2.0, 4.0, 4.00001];
    let mut counter = 0u64;
    let mut run = |calls: Vec<Vec<(usize, f32)>>, rep: &mut Report, counter: &mut u64| {
        *counter += 1;
        if *counter % cli.nshards != cli.shard {
            return;
        }
        let idx = (1u64 << 48) | *counter;
        if let Some(r) = cli.replay_index {
            if r != idx {
                return;
            }
        }
        let mut c = SpatioTemporalConstraints::new();
        for v in &calls {
            c.add_constraints(v.clone());
        }
        // also through the builder-style method
        let mut c2 = SpatioTemporalConstraints::default();
        for v in &calls {
            c2 = c2.constraints(v);
        }
        rep.eval();
        rep.count("tables");
        for gap in 0..=10usize {
            let lim = limit_for_gap(&calls, gap);
            let mut prev_admit = true;
            for d in dists {
                let exp = match lim {
                    None => true,
                    Some(l) => d <= l,
                };
                let got = c.validate(gap, d);
                let got2 = c2.validate(gap, d);
                rep.count("probes");
                if got != exp || got2 != exp {
                    rep.violation("C20/validate", idx, json!({"add_constraints_calls": calls, "gap": gap, "distance": d, "applicable_limit": lim, "validate": got, "via_builder": got2, "expected": exp}));
                    return;
                }
                if got && !prev_admit {
                    rep.violation("C20/validate/not-monotone", idx, json!({"add_constraints_calls": calls, "gap": gap, "distance": d}));
                    return;
                }
                prev_admit = got;
            }
        }
        let gaps: HashSet<usize> = calls.iter().flatten().map(|e| e.0).collect();
        if gaps.len() < calls.iter().map(|c| c.len()).sum::<usize>() {
            rep.count("tables_with_a_repeated_gap");
        }
        let mut h = Hasher::new();
        h.str(&format!("{:?}", calls));
        rep.nontrivial(h.get());
        if rep.want_sample() && calls.len() == 2 && calls[1].len() == 2 {
            rep.sample(json!({"add_constraints_calls": calls, "probes": "gaps 0..=10 x distances [0,0.25,0.5,0.50001,0.99999,1,2,4,4.00001]"}));
        }
    };
    for a in 0..ne {
        run(vec![vec![entries[a]]], rep, &mut counter);
        for b in 0..ne {
            run(vec![vec![entries[a], entries[b]]], rep, &mut counter);
            run(vec![vec![entries[a]], vec![entries[b]]], rep, &mut counter);
            for c in 0..ne {
                run(vec![vec![entries[a], entries[b], entries[c]]], rep, &mut counter);
                run(vec![vec![entries[a]], vec![entries[b], entries[c]]], rep, &mut counter);
                run(vec![vec![entries[a], entries[b]], vec![entries[c]]], rep, &mut counter);
            }
        }
    }
    // one table shared by several threads, as the store's shard workers share the tracker's table: validate(&self) is called
    // concurrently for different gaps and every answer must be the answer of the sequential lookup
    if !cli.small && cli.replay_index.is_none() {
        let calls = vec![vec![(1usize, 0.5f32), (3, 2.0), (5, 4.0)]];
        let mut c = SpatioTemporalConstraints::new();
        c.add_constraints(calls[0].clone());
        let c = std::sync::Arc::new(c);
        let expected: Vec<Option<f32>> = (0..=7usize).map(|g| limit_for_gap(&calls, g)).collect();
        let expected = std::sync::Arc::new(expected);
        let bad = std::sync::Arc::new(std::sync::Mutex::new(Vec::<vh::Value>::new()));
        let n_probes = if cli.thorough() { 2_000_000u64 } else { 300_000 };
        let hs: Vec<_> = (0..4u64)
            .map(|t| {
                let (c, expected, bad) = (c.clone(), expected.clone(), bad.clone());
                let seed = cli.seed ^ (cli.shard << 8) ^ t;
                std::thread::spawn(move || {
                    let mut rng = Rng::for_case(seed, t, 77);
                    for k in 0..n_probes {
                        // each thread dwells on its own gap most of the time
                        let gap = if rng.chance(0.8) { (1 + 2 * t as usize) % 8 } else { rng.usize(8) };
                        let d = *rng.pick(&[0.25f32, 0.5, 0.75, 1.0, 2.0, 3.0, 4.0, 5.0]);
                        let exp = expected[gap].map_or(true, |l| d <= l);
                        if c.validate(gap, d) != exp {
                            let mut b = bad.lock().unwrap();
                            if b.len() < 5 {
                                b.push(json!({"thread": t, "probe": k, "gap": gap, "distance": d, "expected": exp}));
                            }
                            return;
                        }
                    }
                })
            })
            .collect();
        for h in hs {
            let _ = h.join();
        }
        rep.add("concurrent_validate_probes", 4 * n_probes);
        let b = bad.lock().unwrap();
        if !b.is_empty() {
            rep.violation("C20/validate/concurrent-callers", 0, json!({"table": calls, "first_wrong_answers": *b}));
        }
    }
    // the empty table admits everything
    let c = SpatioTemporalConstraints::new();
    for gap in 0..=10usize {
        if !c.validate(gap, 1e9) {
            rep.violation("C20/validate/empty-table-rejects", 0, json!({"gap": gap}));
        }
    }
    rep.note("concurrent_validate", json!("one table shared by four threads (as the shard workers share the tracker's table), 3e5 (quick) / 2e6 (thorough) probes per thread and process, each thread dwelling on its own gap: every answer must equal the sequential lookup"));
    rep.note("exhaustive_tables", json!("every ordered sequence of <= 3 entries over gaps 0..8 x limits {0.5,1,2,4}, in one call and in every split over two add_constraints calls (142 596 tables), probed at gaps 0..10 x 9 distances incl. the limits themselves and +-1e-5"));
}

fn trackers(cli: &Cli, rep: &mut Report) {
    let ctl = if cli.small { None } else { Some(vh::sched::Controller::install()) };
    let n = cli.cases(400, 4000);
    for k in cli.index_range(n) {
        if k >> 48 != 0 {
            continue;
        }
        let idx = k;
        let mut rng = Rng::for_case(cli.seed, cli.shard, idx);
        let kind = match idx % 6 { 0 | 2 => Kind::Sort, 4 => Kind::BatchSort, 5 => Kind::BatchVisual, _ => Kind::Visual };
        let mut cfg = gen_cfg(&mut rng, kind);
        cfg.max_idle = 1 + rng.usize(5);
        cfg.vis.own_use = 0.0;
        cfg.vis.own_collect = 0.0;
        cfg.constraints = None;
        let w = WorldOpts {
            scenes: 1 + rng.usize(2),
            same_region: false,
            preset: *rng.pick(&["teleport", "random", "crossing", "teleport", "stop-and-go"]),
            rotated: rng.chance(0.2),
            features: kind.is_visual(),
            feat_dim: 4,
            duplicates: false,
            nobj: 2 + rng.usize(5),
            steps: 40,
            low_quality: false,
            avoid_coincident: false,
            low_conf: false,
            vary_nobj: false,
        };
        let h = HistOpts { len: if cli.small { 6 } else { 30 + rng.usize(40) }, lifecycle_ops: false, clear_wasted: false, auto_waste_ops: false, batches: false, empty_calls: true };
        let mut ops = gen_history(&mut rng, &w, &h);
        // a quarter of the histories are in normalised image coordinates (everything scaled by 1/1000: boxes a few hundredths
        // wide): distances "in units of the sum of the bounding radii" do not depend on the scale
        if rng.chance(0.25) {
            for op in ops.iter_mut() {
                if let Op::Predict { dets, .. } = op {
                    for d in dets.iter_mut() {
                        d.b.xc *= 1e-3;
                        d.b.yc *= 1e-3;
                        d.b.h *= 1e-3;
                    }
                }
            }
            cfg.vis.min_area *= 1e-6;
            rep.count("histories_in_normalised_coordinates");
        }
        rep.eval();
        // (1) constraints that no pair violates == no constraints (bit-exact, ids included)
        let mut loose = cfg.clone();
        loose.constraints = Some(vec![(0..=cfg.max_idle + 1).map(|g| (g, 1.0e6f32)).collect()]);
        let mut a = AnyTracker::new(&cfg);
        let mut b = AnyTracker::new(&loose);
        let (mut bmap, mut brev): (HashMap<u64, u64>, HashMap<u64, u64>) = (HashMap::new(), HashMap::new());
        for (ci, op) in ops.iter().enumerate() {
            if let Op::Predict { scene, dets } = op {
                let ra = a.predict(*scene, dets);
                let rb = b.predict(*scene, dets);
                rep.count("unconstrained_vs_loose_calls_compared");
                // (batch trackers: ids up to the incrementally built bijection)
                let differs = if kind.is_batch() { bijection_check(&ra, &rb, &mut bmap, &mut brev).is_some() } else { ra != rb };
                if differs {
                    rep.violation(&format!("C20/{:?}/non-binding-constraints-change-behaviour", kind), idx, json!({"cfg": cfg.js(), "call": ci, "without": ra.iter().map(|r| r.js()).collect::<Vec<_>>(), "with": rb.iter().map(|r| r.js()).collect::<Vec<_>>()}));
                    break;
                }
            }
        }
        // (2) binding constraints: no attachment beyond the limit for the epoch gap
        let mut tight = cfg.clone();
        let ncalls = 1 + rng.usize(2);
        tight.constraints = Some((0..ncalls).map(|_| (0..1 + rng.usize(3)).map(|_| (rng.usize(cfg.max_idle + 2), *rng.pick(&[0.05f32, 0.1, 0.2, 0.4, 1.0]))).collect()).collect());
        let tables = tight.constraints.clone().unwrap();
        let mut t = AnyTracker::new(&tight);
        let mut u = AnyTracker::new(&cfg);
        // batch kinds: every judged call is logged for the pipelined re-run below
        let mut seq_log: Vec<(u64, Vec<Det>, Vec<Rec>, Vec<LiveTrack>, usize)> = vec![];
        for (ci, op) in ops.iter().enumerate() {
            if let Op::Predict { scene, dets } = op {
                let pre: HashMap<u64, LiveTrack> = t.live().into_iter().map(|x| (x.id, x)).collect();
                let pre_vec: Vec<LiveTrack> = pre.values().cloned().collect();
                let epoch = t.epoch(*scene) + 1;
                let recs = t.predict(*scene, dets);
                let ru = u.predict(*scene, dets);
                rep.count("constrained_calls");
                if kind.is_batch() && !dets.is_empty() {
                    seq_log.push((*scene, dets.clone(), recs.clone(), pre_vec.clone(), epoch));
                }
                let mut removed_here = false;
                for (i, r) in recs.iter().enumerate() {
                    if let Some(p) = pre.get(&r.id) {
                        let gap = epoch - p.last_epoch;
                        if let Some(lim) = limit_for_gap(&tables, gap) {
                            let d = dist_in_2r(&dets[i].b, &p.est);
                            rep.count("constrained_attachments_checked");
                            if d > lim as f64 * (1.0 + 1e-4) + 1e-7 {
                                rep.violation(&format!("C20/{:?}/attached-beyond-limit", kind), idx, json!({"cfg": tight.js(), "call": ci, "det": dets[i].js(), "track": r.id, "track_last_box": p.est.js(), "gap": gap, "limit": lim, "distance_in_2r": d}));
                                return;
                            }
                        }
                    }
                }
                // the whole call is still an optimal assignment among the admissible (constrained) pairs
                let ok = if !kind.is_visual() {
                    let ids: HashSet<u64> = pre.keys().cloned().collect();
                    let assigned: Vec<Option<u64>> = recs.iter().map(|r| if ids.contains(&r.id) { Some(r.id) } else { None }).collect();
                    let cont: HashSet<u64> = assigned.iter().flatten().cloned().collect();
                    let cands: Vec<&LiveTrack> = pre_vec.iter().filter(|x| x.scene == *scene && (epoch <= x.last_epoch + tight.max_idle || cont.contains(&x.id))).collect();
                    match check_positional(&tight, *scene, epoch, &dets.iter().map(|d| d.b).collect::<Vec<_>>(), &assigned, &cands) {
                        Verdict::Violation(sig, d) => Some((sig, d)),
                        _ => None,
                    }
                } else {
                    match check_visual_call(&tight, *scene, epoch, dets, &recs, &pre_vec) {
                        VVerdict::Violation(sig, d) => Some((sig, d)),
                        _ => None,
                    }
                };
                if let Some((sig, d)) = ok {
                    rep.violation(&format!("C20/{:?}/constrained-call/{}", kind, sig), idx, json!({"cfg": tight.js(), "call": ci, "detail": d}));
                    return;
                }
                // did the constraints bind in this call? (same pre-history is not guaranteed after the first divergence)
                if recs.iter().map(|r| r.length).collect::<Vec<_>>() != ru.iter().map(|r| r.length).collect::<Vec<_>>() {
                    removed_here = true;
                }
                if removed_here {
                    rep.count("calls_where_constraints_changed_the_outcome");
                    let mut hh = Hasher::new();
                    hh.u64(idx).u64(ci as u64);
                    rep.nontrivial(hh.get());
                }
            }
        }
        drop(t);
        drop(u);
        // (3) batch kinds: the constrained history once more, pipelined (results read by consumer threads, store writes of
        // the voting threads stalled): each outcome is judged, constraints included, against the sequential run's snapshot
        if kind.is_batch() && !cli.small && seq_log.len() >= 2 {
            if let Some((sig, d)) = vh::posref::pipelined_pass(&tight, &seq_log, ctl.as_deref(), &mut rng, rep, "") {
                rep.violation(&format!("C20/{:?}/pipelined/{}", kind, sig), idx, json!({"cfg": tight.js(), "detail": d}));
                return;
            }
        }
    }
}

fn main() {
    let cli = Cli::parse();
    let mut rep = Report::new("C20", &cli);
    rep.note("rule", json!("(1) exhaustive constraint tables: every ordered sequence of <= 3 (gap, limit) entries over gaps 0..8 x limits {0.5,1,2,4}, given in one add_constraints call or split over two (and through the builder method), probed at every gap 0..10 x 9 distances including the limits exactly and +-1e-5; reference: applicable limit = first configured limit of the smallest configured gap >= probe gap, admit iff d <= limit, none => admit; admission monotone in d. (2) trackers (Sort, VisualSort, BatchSort, BatchVisualSort; the batch kinds also re-run pipelined, each outcome judged against the sequential run's snapshot) on teleport / re-appear histories: a run with constraints that no pair can violate (limit 1e6 for every gap) must equal the unconstrained run bit for bit, ids included; a run with random binding tables must never attach a detection to a track whose centre distance in units of the summed bounding radii exceeds the limit for their epoch gap (1e-4 band), and every call must still be an optimal gated assignment among the admissible pairs (C02 / C12 oracles with the constraint applied). Non-trivial: every distinct table; tracker calls where the constraints changed the outcome."));
    rep.note("assumptions", json!(["distances are measured between the detection and the track's last estimated box, as the library does"]));
    rep.note("exhaustive", json!(true));
    if !cli.small {
        tables(&cli, &mut rep);
    }
    trackers(&cli, &mut rep);
    rep.finish();
}
