//! C12 — VisualSORT: appearance votes first, positional fallback, truthful voting type.
use vh::posref::{check_visual_call, VVerdict};
use vh::rng::Hasher;
use vh::trk::*;
use vh::votingref::{check_visual, Elt};
use vh::{json, Cli, Report, Rng};

fn main() {
    let cli = Cli::parse();
    let mut rep = Report::new("C12", &cli);
    rep.note("rule", json!("case = VisualSort / BatchVisualSort (1x1 and 2x2 workers; half of the batch histories submit multi-scene batches over 2..3 scenes that mostly share one image region) with a random option combination (Euclidean/cosine threshold, IoU/Mahalanobis, min votes 1..3, minimal track length 1..4, max observations 1..8, use/collect quality, minimal area, own-area shares 0/0.3/0.6) x history of 30..80 calls from the presets lookalikes / crossing / crowd / convoy / random with gaps (occlusion), missing features and qualities drawn from a grid that hits the use/collect thresholds exactly. Before every call the galleries (stored features + qualities), collected counts, last boxes and filter states are read from the store; an independent reference recomputes usability, per-pair votes (stored features within the distance threshold), claim weights sum(max seen - d) and checks: a record reports visual voting only for a qualifying claim of the greatest-weight claimant; the clear top claimant of its own clear best claim gets the track with visual voting; a claimant is never attached to a track it lost; detections without any claim are an optimal gated positional assignment among tracks not taken by appearance (same oracle as C02). Every threshold comparison on a computed quantity has a 1e-5..1e-4 band inside which the call is counted as undecidable. Non-trivial call: at least one qualifying appearance claim; distinct by call hash."));
    rep.note("assumptions", json!(["own-area shares are taken from the library function (C15 judges them)", "workloads avoid the input class of the recorded C15 finding when own-area thresholds are enabled"]));
    // ---- layer A: the VisualVoting engine on generated result streams (votes, weights over ALL emitted distances,
    // contests, positional fallback), checked by the statement-level reference shared with C17
    if !cli.small {
        use similari::track::ObservationMetricOk;
        use similari::trackers::sort::VotingType;
        use similari::trackers::visual_sort::observation_attributes::VisualObservationAttributes;
        use similari::trackers::visual_sort::voting::VisualVoting;
        use similari::voting::Voting;
        use std::collections::BTreeMap;
        let na = cli.cases(20_000, 200_000);
        for k in cli.index_range(na) {
            if k >> 40 != 0 {
                continue;
            }
            let idx = (5u64 << 40) | k;
            let mut rng = Rng::for_case(cli.seed, cli.shard, idx);
            let (nq, nt) = (1 + rng.usize(4), 1 + rng.usize(4));
            let minv = 1 + rng.usize(3);
            let thr = *rng.pick(&[0.1f32, 0.3, 0.5]);
            let mut stream: Vec<Elt> = vec![];
            for q in 0..nq {
                for t in 0..nt {
                    if !rng.chance(0.8) {
                        continue;
                    }
                    let w = if rng.chance(0.8) { Some((rng.uniform(0.05, 0.95) * 1000.0).round() as f32 / 1000.0) } else { None };
                    // one element with the track's box (positional weight), further gallery elements without
                    let kk = rng.usize(5);
                    for e in 0..kk.max(1) {
                        let d = if kk == 0 || rng.chance(0.1) { None } else { Some(rng.uniform(0.0, 2.0) as f32) };
                        stream.push(Elt { q: 1 + q as u64, t: 101 + t as u64, w: if e == 0 { w } else { None }, d });
                    }
                }
            }
            if stream.is_empty() {
                continue;
            }
            rng.shuffle(&mut stream);
            let v: Vec<ObservationMetricOk<VisualObservationAttributes>> = stream.iter().map(|e| ObservationMetricOk::new(e.q, e.t, e.w, e.d)).collect();
            let res: BTreeMap<u64, Vec<(u64, bool)>> = VisualVoting::new(thr, f32::MAX, minv).winners(v).into_iter().map(|(q, l)| (q, l.into_iter().map(|(t, vt)| (t, matches!(vt, VotingType::Visual))).collect())).collect();
            let ctx = json!({"stream[q,t,positional_weight,feature_distance]": stream.iter().map(|e| json!([e.q, e.t, e.w, e.d])).collect::<Vec<_>>(), "min_votes": minv, "threshold": thr});
            rep.eval();
            rep.count("engine_streams_checked");
            check_visual(&mut rep, idx, &stream, thr, f32::MAX, minv, &res, &ctx, "C12/engine");
        }
    }
    let n = cli.cases(1600, 12_000);
    for idx in cli.index_range(n) {
        if idx >> 40 != 0 {
            continue;
        }
        let mut rng = Rng::for_case(cli.seed, cli.shard, idx);
        let kind = if idx % 3 == 2 { Kind::BatchVisual } else { Kind::Visual };
        let mut cfg = gen_cfg(&mut rng, kind);
        cfg.max_idle = 1 + rng.usize(4);
        if rng.chance(0.4) {
            // several votes required and galleries large enough to cast them
            cfg.vis.min_votes = 2 + rng.usize(2);
            cfg.vis.max_obs = cfg.vis.max_obs.max(4);
        }
        if kind == Kind::BatchVisual {
            let k = if rng.chance(0.5) { 1 } else { 2 };
            cfg.shards = k;
            cfg.voting_shards = k;
        }
        // half of the batch histories submit multi-scene batches (2..3 scenes, mostly occupying the same image region):
        // every scene of a batch is judged on its own, against the pre-batch snapshot
        let multi = kind == Kind::BatchVisual && rng.chance(0.5);
        let w = WorldOpts {
            scenes: if multi { 2 + rng.usize(2) } else { 1 + rng.usize(2) },
            same_region: rng.chance(if multi { 0.7 } else { 0.3 }),
            preset: *rng.pick(&["lookalikes", "crossing", "crowd", "convoy", "random", "lookalikes", "pack"]),
            rotated: rng.chance(0.2),
            features: true,
            feat_dim: *rng.pick(&[2usize, 3, 8, 16]),
            duplicates: false,
            nobj: 2 + rng.usize(6),
            steps: 40,
            low_quality: rng.chance(0.6),
            avoid_coincident: cfg.vis.own_use + cfg.vis.own_collect > 0.0,
            low_conf: rng.chance(0.15),
            vary_nobj: false,
        };
        let h = HistOpts { len: if cli.small { 6 } else { 30 + rng.usize(51) }, lifecycle_ops: false, clear_wasted: false, auto_waste_ops: false, batches: multi, empty_calls: false };
        let ops = gen_history(&mut rng, &w, &h);
        let mut trk = AnyTracker::new(&cfg);
        rep.eval();
        rep.count(&format!("histories/{:?}", kind));
        if multi {
            rep.count("histories_with_multi_scene_batches");
        }
        // flatten: one judged call per (operation, scene)
        let mut calls: Vec<(usize, u64, Vec<Det>, Vec<Rec>, std::rc::Rc<Vec<LiveTrack>>, usize)> = vec![];
        for (ci, op) in ops.iter().enumerate() {
            match op {
                Op::Predict { scene, dets } if !dets.is_empty() => {
                    let pre = std::rc::Rc::new(trk.live());
                    let epoch = trk.epoch(*scene) + 1;
                    let recs = trk.predict(*scene, dets);
                    calls.push((ci, *scene, dets.clone(), recs, pre, epoch));
                }
                Op::Batch(b) => {
                    let pre = std::rc::Rc::new(trk.live());
                    let epochs: Vec<usize> = b.iter().map(|(s, _)| trk.epoch(*s) + 1).collect();
                    let out = trk.predict_batch(b);
                    for ((s, dets), e) in b.iter().zip(epochs) {
                        let recs = out.iter().find(|x| x.0 == *s).map(|x| x.1.clone()).unwrap_or_default();
                        calls.push((ci, *s, dets.clone(), recs, pre.clone(), e));
                    }
                }
                _ => {}
            }
        }
        for (ci, scene, dets, recs, pre, epoch) in calls {
            let (dets, pre) = (&dets, &*pre);
            if recs.len() != dets.len() {
                rep.violation("C12/record-count", idx, json!({"call": ci}));
                break;
            }
            rep.count("calls");
            match check_visual_call(&cfg, scene, epoch, dets, &recs, pre) {
                VVerdict::Ok { claims, contests, visual_attachments, positional_checked, positional_nontrivial } => {
                    rep.count("calls_decided");
                    rep.add("qualifying_claims", claims as u64);
                    rep.add("appearance_contests", contests as u64);
                    rep.add("visual_attachments", visual_attachments as u64);
                    if positional_checked {
                        rep.count("positional_stage_checked");
                    }
                    if positional_nontrivial {
                        rep.count("positional_stage_greedy_suboptimal");
                    }
                    if claims > 0 {
                        let mut hh = Hasher::new();
                        hh.u64(idx).u64(ci as u64);
                        for d in dets {
                            d.b.hash(&mut hh);
                        }
                        rep.nontrivial(hh.get());
                        if rep.want_sample() && contests > 0 {
                            rep.sample(json!({"cfg": cfg.js(), "scene": scene, "epoch": epoch, "dets": dets.iter().map(|d| d.js()).collect::<Vec<_>>(), "records[id,visual]": recs.iter().map(|r| json!([r.id, r.visual])).collect::<Vec<_>>(),
                                "galleries": pre.iter().filter(|t| t.scene == scene).map(|t| json!({"id": t.id, "collected": t.collected_count, "features": t.gallery.iter().map(|g| json!([g.feature, g.quality])).collect::<Vec<_>>()})).collect::<Vec<_>>()}));
                        }
                    }
                }
                VVerdict::Undecidable(why) => rep.count(&format!("calls_undecidable/{}", why)),
                VVerdict::Violation(sig, d) => {
                    rep.violation(&format!("C12/{:?}/{}", kind, sig), idx, json!({"cfg": cfg.js(), "preset": w.preset, "call": ci, "scene": scene, "epoch": epoch, "detail": d}));
                    break;
                }
            }
        }
    }
    rep.finish();
}
