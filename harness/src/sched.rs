//! Schedule controller behind the guarded hook `similari::verif_hooks` (recorder, delay plans, gate scripts).
use crate::rng::splitmix;
use std::collections::HashMap;
use std::sync::atomic::{AtomicU64, Ordering};
use std::sync::{Arc, Condvar, Mutex};
use std::time::{Duration, Instant};

#[derive(Clone, Copy, Debug, PartialEq, Eq, Hash)]
pub enum Token {
    /// the next Distances/Merge/Lookup/FindBaked command of store worker k (held from begin to end)
    Worker(u64),
    /// the caller's step between "commands sent" and what follows in owned_track_distances
    Caller,
}

#[derive(Clone, Debug)]
pub enum Mode {
    Off,
    Record,
    /// seeded random delays at every hooked site; `intensity` in 0..=100 is the percentage of hits that are delayed
    Delay { seed: u64, intensity: u64, max_sleep_us: u64 },
    /// scripted total order of tokens
    Gate { script: Vec<Token> },
    /// stall every hit of `site` (optionally only with arg) for `us` microseconds, otherwise like Delay
    Stall { site: &'static str, us: u64, seed: u64 },
}

#[derive(Default)]
struct State {
    mode: Option<Mode>,
    script_pos: usize,
    holder: Option<Token>,
    stalled: bool,
    hits: HashMap<(&'static str, u64), u64>,
    events: Vec<(&'static str, u64)>,
    last_site: HashMap<std::thread::ThreadId, (&'static str, u64)>,
}

pub struct Controller {
    st: Mutex<State>,
    cv: Condvar,
    pub ticket: AtomicU64,
    pub gate_timeouts: AtomicU64,
}

fn worker_of(site: &str, arg: u64) -> Option<(bool, u64, u64)> {
    // (is_begin, shard, kind)
    match site {
        "store.cmd.begin" => Some((true, arg >> 8, arg & 0xff)),
        "store.cmd.end" => Some((false, arg >> 8, arg & 0xff)),
        _ => None,
    }
}

impl Controller {
    /// creates the controller and installs it as the process-global hook callback
    pub fn install() -> Arc<Controller> {
        let c = Arc::new(Controller { st: Mutex::new(State::default()), cv: Condvar::new(), ticket: AtomicU64::new(0), gate_timeouts: AtomicU64::new(0) });
        let c2 = c.clone();
        similari::verif_hooks::set_callback(Some(Arc::new(move |site, arg| c2.on(site, arg))));
        c
    }

    pub fn set_mode(&self, m: Mode) {
        let mut s = self.st.lock().unwrap();
        s.mode = Some(m);
        s.script_pos = 0;
        s.holder = None;
        s.stalled = false;
        s.hits.clear();
        s.events.clear();
        self.cv.notify_all();
    }

    /// returns (recorded events, whether a gate script stalled and was abandoned)
    pub fn finish(&self) -> (Vec<(&'static str, u64)>, bool) {
        let mut s = self.st.lock().unwrap();
        s.mode = Some(Mode::Off);
        let ev = std::mem::take(&mut s.events);
        let stalled = s.stalled;
        self.cv.notify_all();
        (ev, stalled)
    }

    pub fn script_consumed(&self) -> usize {
        self.st.lock().unwrap().script_pos
    }

    pub fn last_sites(&self) -> Vec<String> {
        self.st.lock().unwrap().last_site.iter().map(|(t, (s, a))| format!("{:?}@{}({})", t, s, a)).collect()
    }

    fn on(&self, site: &'static str, arg: u64) {
        self.ticket.fetch_add(1, Ordering::SeqCst);
        let mut s = self.st.lock().unwrap();
        s.last_site.insert(std::thread::current().id(), (site, arg));
        let mode = match &s.mode {
            None | Some(Mode::Off) => return,
            Some(m) => m.clone(),
        };
        // the Drop command of a worker is never interesting
        if let Some((_, _, 0)) = worker_of(site, arg) {
            return;
        }
        s.events.push((site, arg));
        let n = {
            let e = s.hits.entry((site, arg)).or_insert(0);
            *e += 1;
            *e
        };
        match mode {
            Mode::Off | Mode::Record => {}
            Mode::Delay { seed, intensity, max_sleep_us } => {
                drop(s);
                delay(seed, site, arg, n, intensity, max_sleep_us);
            }
            Mode::Stall { site: ss, us, seed } => {
                drop(s);
                if ss == site {
                    std::thread::sleep(Duration::from_micros(us));
                } else {
                    delay(seed, site, arg, n, 30, 300);
                }
            }
            Mode::Gate { script } => {
                let my = match worker_of(site, arg) {
                    // only distance commands are scripted; everything else passes freely
                    Some((_, _, kind)) if kind != 2 => None,
                    Some((true, shard, _)) => Some((Token::Worker(shard), true)),
                    Some((false, shard, _)) => Some((Token::Worker(shard), false)),
                    None if site == "store.owned.sent" => Some((Token::Caller, true)),
                    None => None,
                };
                let (tok, begin) = match my {
                    Some(x) => x,
                    None => return,
                };
                if !begin {
                    // end of a worker command: release the token it holds
                    if s.holder == Some(tok) {
                        s.holder = None;
                        self.cv.notify_all();
                    }
                    return;
                }
                let deadline = Instant::now() + Duration::from_secs(10);
                loop {
                    if s.stalled || !matches!(s.mode, Some(Mode::Gate { .. })) {
                        return;
                    }
                    if s.script_pos >= script.len() {
                        return; // script exhausted: free running
                    }
                    if s.holder.is_none() && script[s.script_pos] == tok {
                        s.script_pos += 1;
                        if tok != Token::Caller {
                            s.holder = Some(tok);
                        }
                        self.cv.notify_all();
                        return;
                    }
                    let now = Instant::now();
                    if now >= deadline {
                        s.stalled = true;
                        self.gate_timeouts.fetch_add(1, Ordering::SeqCst);
                        self.cv.notify_all();
                        return;
                    }
                    let (g, _) = self.cv.wait_timeout(s, deadline - now).unwrap();
                    s = g;
                }
            }
        }
    }
}

fn delay(seed: u64, site: &str, arg: u64, n: u64, intensity: u64, max_sleep_us: u64) {
    let mut x = seed ^ crate::rng::fnv(site.as_bytes()) ^ arg.wrapping_mul(0x9E3779B97F4A7C15) ^ n.wrapping_mul(0xD1B54A32D192ED03);
    let r = splitmix(&mut x);
    if r % 100 >= intensity {
        return;
    }
    match (r >> 8) % 4 {
        0 => std::thread::yield_now(),
        1 => {
            let spins = (r >> 16) % 20_000;
            for _ in 0..spins {
                std::hint::spin_loop();
            }
        }
        _ => {
            let us = 20 + (r >> 16) % max_sleep_us.max(1);
            std::thread::sleep(Duration::from_micros(us));
        }
    }
}

/// all distinct interleavings of per-worker command sequences: `counts[k]` commands of worker k
pub fn worker_interleavings(counts: &[usize]) -> Vec<Vec<Token>> {
    fn rec(left: &mut Vec<usize>, cur: &mut Vec<Token>, out: &mut Vec<Vec<Token>>) {
        if left.iter().all(|c| *c == 0) {
            out.push(cur.clone());
            return;
        }
        for k in 0..left.len() {
            if left[k] > 0 {
                left[k] -= 1;
                cur.push(Token::Worker(k as u64));
                rec(left, cur, out);
                cur.pop();
                left[k] += 1;
            }
        }
    }
    let mut out = vec![];
    rec(&mut counts.to_vec(), &mut vec![], &mut out);
    out
}

/// insert the caller token at every position of a worker interleaving
pub fn with_caller_positions(w: &[Token]) -> Vec<Vec<Token>> {
    (0..=w.len())
        .map(|p| {
            let mut v = w.to_vec();
            v.insert(p, Token::Caller);
            v
        })
        .collect()
}

pub fn order_signature(events: &[(&'static str, u64)], site: &str) -> u64 {
    let mut h = crate::rng::Hasher::new();
    for (s, a) in events {
        if *s == site {
            h.u64(*a);
        }
    }
    h.get()
}
