pub fn placeholder(){}
