//! Tiny dense f64 linear algebra for the reference Kalman filter and SPD checks.
#[derive(Clone, Debug, PartialEq)]
pub struct Mat {
    pub r: usize,
    pub c: usize,
    pub d: Vec<f64>,
}

impl Mat {
    pub fn zeros(r: usize, c: usize) -> Mat {
        Mat { r, c, d: vec![0.0; r * c] }
    }
    pub fn eye(n: usize) -> Mat {
        let mut m = Mat::zeros(n, n);
        for i in 0..n {
            m.d[i * n + i] = 1.0;
        }
        m
    }
    pub fn diag(v: &[f64]) -> Mat {
        let n = v.len();
        let mut m = Mat::zeros(n, n);
        for i in 0..n {
            m.d[i * n + i] = v[i];
        }
        m
    }
    pub fn col(v: &[f64]) -> Mat {
        Mat { r: v.len(), c: 1, d: v.to_vec() }
    }
    pub fn from_rows(r: usize, c: usize, d: &[f64]) -> Mat {
        assert_eq!(d.len(), r * c);
        Mat { r, c, d: d.to_vec() }
    }
    #[inline]
    pub fn at(&self, i: usize, j: usize) -> f64 {
        self.d[i * self.c + j]
    }
    #[inline]
    pub fn set(&mut self, i: usize, j: usize, v: f64) {
        self.d[i * self.c + j] = v;
    }
    pub fn t(&self) -> Mat {
        let mut m = Mat::zeros(self.c, self.r);
        for i in 0..self.r {
            for j in 0..self.c {
                m.d[j * self.r + i] = self.at(i, j);
            }
        }
        m
    }
    pub fn mul(&self, o: &Mat) -> Mat {
        assert_eq!(self.c, o.r);
        let mut m = Mat::zeros(self.r, o.c);
        for i in 0..self.r {
            for k in 0..self.c {
                let a = self.at(i, k);
                if a == 0.0 {
                    continue;
                }
                for j in 0..o.c {
                    m.d[i * o.c + j] += a * o.at(k, j);
                }
            }
        }
        m
    }
    pub fn add(&self, o: &Mat) -> Mat {
        assert_eq!((self.r, self.c), (o.r, o.c));
        Mat { r: self.r, c: self.c, d: self.d.iter().zip(&o.d).map(|(a, b)| a + b).collect() }
    }
    pub fn sub(&self, o: &Mat) -> Mat {
        assert_eq!((self.r, self.c), (o.r, o.c));
        Mat { r: self.r, c: self.c, d: self.d.iter().zip(&o.d).map(|(a, b)| a - b).collect() }
    }
    pub fn scale(&self, s: f64) -> Mat {
        Mat { r: self.r, c: self.c, d: self.d.iter().map(|a| a * s).collect() }
    }
    pub fn frob(&self) -> f64 {
        self.d.iter().map(|a| a * a).sum::<f64>().sqrt()
    }
    pub fn max_abs(&self) -> f64 {
        self.d.iter().fold(0.0, |m, a| m.max(a.abs()))
    }
    /// inverse by Gauss-Jordan with partial pivoting
    pub fn inv(&self) -> Option<Mat> {
        assert_eq!(self.r, self.c);
        let n = self.r;
        let mut a = self.clone();
        let mut b = Mat::eye(n);
        for col in 0..n {
            let mut piv = col;
            for r in col + 1..n {
                if a.at(r, col).abs() > a.at(piv, col).abs() {
                    piv = r;
                }
            }
            if a.at(piv, col).abs() < 1e-300 {
                return None;
            }
            if piv != col {
                for j in 0..n {
                    let (x, y) = (a.at(col, j), a.at(piv, j));
                    a.set(col, j, y);
                    a.set(piv, j, x);
                    let (x, y) = (b.at(col, j), b.at(piv, j));
                    b.set(col, j, y);
                    b.set(piv, j, x);
                }
            }
            let p = a.at(col, col);
            for j in 0..n {
                a.set(col, j, a.at(col, j) / p);
                b.set(col, j, b.at(col, j) / p);
            }
            for r in 0..n {
                if r != col {
                    let f = a.at(r, col);
                    if f != 0.0 {
                        for j in 0..n {
                            a.set(r, j, a.at(r, j) - f * a.at(col, j));
                            b.set(r, j, b.at(r, j) - f * b.at(col, j));
                        }
                    }
                }
            }
        }
        Some(b)
    }
    pub fn sym_part(&self) -> Mat {
        self.add(&self.t()).scale(0.5)
    }
    /// max |a_ij - a_ji| / max|a|
    pub fn asym_rel(&self) -> f64 {
        let m = self.max_abs().max(1e-300);
        let mut w: f64 = 0.0;
        for i in 0..self.r {
            for j in 0..i {
                w = w.max((self.at(i, j) - self.at(j, i)).abs());
            }
        }
        w / m
    }
    /// max |a_ij - a_ji| / sqrt(a_ii a_jj)
    pub fn asym_scaled(&self) -> f64 {
        let mut w: f64 = 0.0;
        for i in 0..self.r {
            for j in 0..i {
                let s = (self.at(i, i) * self.at(j, j)).abs().sqrt().max(1e-300);
                w = w.max((self.at(i, j) - self.at(j, i)).abs() / s);
            }
        }
        w
    }
    /// eigenvalues of a symmetric matrix (cyclic Jacobi)
    pub fn sym_eigenvalues(&self) -> Vec<f64> {
        let n = self.r;
        let mut a = self.sym_part();
        for _sweep in 0..100 {
            let mut off = 0.0;
            for i in 0..n {
                for j in 0..n {
                    if i != j {
                        off += a.at(i, j).powi(2);
                    }
                }
            }
            if off.sqrt() <= 1e-14 * a.frob().max(1e-300) {
                break;
            }
            for p in 0..n {
                for q in p + 1..n {
                    let apq = a.at(p, q);
                    if apq.abs() < 1e-300 {
                        continue;
                    }
                    let theta = (a.at(q, q) - a.at(p, p)) / (2.0 * apq);
                    let t = theta.signum() / (theta.abs() + (theta * theta + 1.0).sqrt());
                    let t = if theta == 0.0 { 1.0 } else { t };
                    let c = 1.0 / (t * t + 1.0).sqrt();
                    let s = t * c;
                    for k in 0..n {
                        let akp = a.at(k, p);
                        let akq = a.at(k, q);
                        a.set(k, p, c * akp - s * akq);
                        a.set(k, q, s * akp + c * akq);
                    }
                    for k in 0..n {
                        let apk = a.at(p, k);
                        let aqk = a.at(q, k);
                        a.set(p, k, c * apk - s * aqk);
                        a.set(q, k, s * apk + c * aqk);
                    }
                }
            }
        }
        (0..n).map(|i| a.at(i, i)).collect()
    }
    /// smallest eigenvalue of D^-1/2 A D^-1/2 (diagonally scaled); None if a diagonal entry is <= 0
    pub fn scaled_min_eig(&self) -> Option<f64> {
        let n = self.r;
        let mut s = self.sym_part();
        let d: Vec<f64> = (0..n).map(|i| s.at(i, i)).collect();
        if d.iter().any(|x| !(*x > 0.0)) {
            return None;
        }
        for i in 0..n {
            for j in 0..n {
                let v = s.at(i, j) / (d[i].sqrt() * d[j].sqrt());
                s.set(i, j, v);
            }
        }
        Some(s.sym_eigenvalues().into_iter().fold(f64::INFINITY, f64::min))
    }
}
