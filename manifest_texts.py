"""Human-written texts for MANIFEST.json (kept apart from run configuration)."""

ENGINES = [
    {"name": "native-oracle", "path": "harness/src/bin", "serves_properties": ["C01-C20"],
     "kind_free_text": "the real library (dev profile, overflow checks on, --cfg similari_verif) driven by generated workloads under reference-model / differential / invariant monitors; one binary per property, sharded over processes by ./check"},
    {"name": "schedule-controller", "path": "harness/src/sched.rs", "serves_properties": ["C05", "C06", "C10"],
     "kind_free_text": "callback installed at the guarded schedule points: recorder, seeded delay plans, gate scripts forcing worker command orders"},
    {"name": "miri", "path": "engines.py", "serves_properties": ["C05", "C06", "C09", "C10", "C16"],
     "kind_free_text": "cargo +nightly miri run of the same monitor binaries in --small mode over many scheduler seeds: UB/data-race detector and independent schedule explorer (thorough tier)"},
]

NOTES = ("Runtime monitoring only: every verdict means 'held on the executions observed'. exit 0 held / 1 violation / 2 inconclusive. "
         "Known findings are matched by exact signature from known_findings.json.")

NOT_APPLICABLE = {}

TEXTS = {
    "C16": {
        "technique": "runtime oracle: f64 scalar reference + algebraic-law monitors over every length 0..=130 x random draws; Miri on the SIMD casts (thorough)",
        "level_text": "Every vector length 0..=130 is exercised (exhaustive in the quantity the bug class depends on) with tens of thousands of random value draws; round-trip, Euclidean, cosine are compared with an f64 textbook evaluation and the symmetry / identity / triangle / range / parallel / scale laws are asserted on each draw. Values are sampled, not enumerated.",
        "level_note": "Trusts the f64 reference evaluation and the stated tolerances (>=50x above the largest error observed on the pinned tree). Says nothing about non-finite inputs.",
    },
}
