"""Human-written texts for MANIFEST.json (kept apart from run configuration)."""

ENGINES = [
    {"name": "native-oracle", "path": "harness/src/bin", "serves_properties": ["C01-C20"],
     "kind_free_text": "the real library (dev profile, overflow checks on, --cfg similari_verif) driven by generated workloads under reference-model / differential / invariant monitors; one binary per property, sharded over processes by ./check"},
    {"name": "schedule-controller", "path": "harness/src/sched.rs", "serves_properties": ["C05", "C06", "C10"],
     "kind_free_text": "callback installed at the guarded schedule points: recorder, seeded delay plans, gate scripts forcing worker command orders"},
    {"name": "valgrind-memcheck", "path": "engines.py", "serves_properties": ["C18"],
     "kind_free_text": "PYTHONMALLOC=malloc valgrind over python3 + similari.so on a slice of the C18 scripts; only report blocks with a similari frame count (thorough tier)"},
    {"name": "tsan", "path": "engines.py", "serves_properties": ["C05", "C06", "C09", "C10"],
     "kind_free_text": "-Zsanitizer=thread -Zbuild-std build of the C05 / C06 / C09 / C10 monitor binaries (thorough tier)"},
    {"name": "miri", "path": "engines.py", "serves_properties": ["C05", "C06", "C09", "C10", "C16"],
     "kind_free_text": "cargo +nightly miri run of the same monitor binaries in --small mode over many scheduler seeds: UB/data-race detector and independent schedule explorer (thorough tier)"},
]

NOTES = ("Runtime monitoring only: every verdict means 'held on the executions observed'. exit 0 held / 1 violation / 2 inconclusive. "
         "Known findings are matched by exact signature from known_findings.json.")

NOT_APPLICABLE = {}

TEXTS = {
    "C16": {
        "technique": "runtime oracle: f64 scalar reference + algebraic-law monitors over every length 0..=130 x random draws; Miri on the SIMD casts (thorough)",
        "level_text": "Every vector length 0..=130 is exercised (exhaustive in the quantity the bug class depends on) with tens of thousands of random value draws through both public constructors (borrowed and owned vector); round-trip, Euclidean, cosine are compared with an f64 textbook evaluation and the symmetry / identity / triangle / range / parallel / scale laws are asserted on each draw. Values are sampled, not enumerated.",
        "level_note": "Trusts the f64 reference evaluation and the stated tolerances (>=50x above the largest error observed on the pinned tree). Says nothing about non-finite inputs.",
    },
    "C19": {
        "technique": "runtime oracle: f64 reference rotation / conversions; equality relation checked over the full (field x delta x order) product per random base box",
        "level_text": "Thousands (quick) to hundreds of thousands (thorough) of random base boxes over magnitudes 1e-2..1e4; for each one every field of both box types is perturbed by every delta across the epsilon boundary in both argument orders (that small product is enumerated completely), and the polygon, round-trip and angle-normalisation laws are checked against an f64 reference.",
        "level_note": "Base boxes are sampled. Equality expectations are computed from the difference actually representable in f32; a 2% band around EPS is skipped and counted.",
    },
    "C08": {
        "technique": "runtime differential oracle: independent f64 convex-intersection algorithm (vertex inclusion + edge crossings) vs the library on 2e5..2e7 generated box pairs incl. degenerate families; metamorphic checks (symmetry, rigid motion, closed form)",
        "level_text": "Sampled pairs from eight structured families (general, identical, almost identical = GitHub #84, nested, touching/edge sharing, right-angle crossing, around the too_far radius, axis-aligned) at coordinate scales 10..1e4; each pair is checked for area, IoU formula, range, symmetry, presence/absence, too_far soundness, closed-form agreement and rigid-motion invariance.",
        "level_note": "Trusts the f64 reference algorithm; presence/absence and closed-form agreement are only judged outside stated bands; tolerances have >=40x head-room over the largest error seen on the repaired tree.",
    },
    "C14": {
        "technique": "runtime invariant monitor on nms() outputs (pointer-identity mapping to inputs) with an f64 coverage reference and an idempotence re-application",
        "level_text": "2e5 (quick) to 2e6 (thorough) generated lists of 0..40 boxes in clustered / sparse / nested / duplicated / mixed styles (a fifth in normalised coordinates with heights 1e-3..1e-1, a quarter with detection confidences != 1, a tenth of the boxes carrying a stale vertex cache, a tenth of the lists 1e5..4e6 away from the origin, a quarter of the scored lists with signed scores, 8% exact integer-grid lists) with all score / threshold modes and invalid boxes mixed in; every output is checked for subset+filter, rank order, top-ranked kept, kept-not-covered, dropped-covered and nms(nms(x)) == nms(x).",
        "level_note": "Coverage decisions within 1e-4 of the threshold are not judged (counted). Rank ties: only non-increasing order is required.",
    },
    "C15": {
        "technique": "runtime differential oracle: exact unit-cell counting (integer boxes) and f64 inclusion-exclusion over convex intersections (self-checked by stratified sampling), permutation metamorphic check, panic containment with known-finding classification",
        "level_text": "3e4 (quick) to 3e5 (thorough) sets of 1..8 boxes from integer-grid, axis-aligned, rotated and near-degenerate families (a tenth of the sets with boxes that reach their parameters by field writes after gen_vertices()); VisualSort / BatchVisualSort runs with own-area thresholds check the share recorded per detection. Shares are compared per box with the reference, range-checked and re-computed under a random permutation. A panic below exclusively_owned_areas is caught and reported as a violation unless it is exactly the recorded known finding (panic inside geo-0.27 boolean ops AND a near-coincident edge pair in the input).",
        "level_note": "Trusts the f64 reference (a dense-sampling arbiter runs on every disagreement and on every 50th case). The geo-0.27 sweep-line panic on near-coincident edges is a recorded, unrepaired finding (known_findings.json).",
    },
    "C17": {
        "technique": "runtime reference-model monitor + permutation differential: all permutations of small result streams, 50 random permutations of larger ones",
        "level_text": "4e4 (quick) to 4e5 (thorough) generated streams over <= 6 queries x <= 6 tracks x 0..5 distances per pair (distances non-negative, all negative or of mixed sign in [-1, 1]; overlapping and disjoint id spaces, a quarter of the streams with wide two-part u64 ids; ulp-level near ties); TopN, BestFit, Hungarian and Visual voting outputs are checked against references written from the statement and against their own outputs on permuted streams (every 4th stream is small and run in all of its <= 5040 orders).",
        "level_note": "Streams are sampled; permutations of small streams are enumerated completely. Near-ties (1e-6 relative) downgrade a comparison and are counted.",
    },
    "C07": {
        "technique": "runtime differential oracle: textbook f64 Kalman filter in lock-step (one-step differential restarted from the library's hooked state + free-running), SPD / symmetry invariants at every step, exhaustive grid for the cost conversions",
        "level_text": "6e3 (quick) to 4e4 (thorough) trajectories of 50..600 steps with random predict/update patterns (a sixth with one coasting episode of 60..320 predictions without update and a displaced re-appearance), weights 0.2x..5x default, coordinates to 1e4, heights to 1e3; every step of the box, point and vector filters is compared with the reference (mean, full covariance through the guarded accessor), distance() is compared with the f64 Mahalanobis distance of the library's own state, and the direct/inverted cost identity is checked on a 1e4-point grid including all gates +-1 ulp.",
        "level_note": "Trusts the f64 reference and the noise model read from the source; one-step tolerances have >=10x head-room over the largest deviation observed. The box part of a trajectory ends where the measurement variance (wp*h_predicted)^2 falls below 2^-19 of the prior variance (predicted height extrapolated towards zero): there the f32 subtraction P - K S K^T cannot represent the posterior and SPD-up-to-rounding has no meaning (DESIGN.md 10.3).",
    },
    "C09": {
        "technique": "runtime reference-model monitor: sequential map model shadowing every store operation, full state comparison through get_store() after each step; exhaustive short sequences + random long ones; Miri (thorough)",
        "level_text": "All operation sequences of length <= 2 (quick) / <= 3 (thorough, 70^3 x 2 shard counts) over a 70-operation alphabet are executed against the real store, plus tens of thousands of sampled length-3 and hundreds to thousands of random sequences of 50..400 operations on 1..5 shards (half of them over wide u64 ids: 2^32+x, x<<32|x, hashed, u64::MAX-x); after every single operation the return value and the complete contents of every shard are compared with a sequential model built on the workload's own attribute / metric callbacks (incl. data-driven callback failures). In the random sequences four threads periodically issue the &self operations (lookup with every query kind, shard_stats) concurrently against the quiescent store; each call must return the model's answer. A third of the non-blocking merges are fire-and-forget (future dropped while the merge is in flight); a quiescence detector turns a store operation that never returns into a deadlock violation.",
        "level_note": "The model calls the same user callbacks, so the oracle is the composition rule of the store / track code. Which shard an id maps to is left to the store: a track must be found in the shard get_store(id) hands out, and the per-shard counts must add up. Non-blocking merges are awaited before the next operation. Random sequences are sampled.",
    },
    "C10": {
        "technique": "runtime reference enumeration + controlled schedules: gate scripts at the guarded worker schedule points enumerate every command order (and caller position) for small scenarios, seeded delay plans for larger ones; Miri many-seeds and TSan (thorough)",
        "level_text": "Every scenario's result and error multisets are compared with an enumeration over the pre-query store contents (features of 1..17 components; in 30% of the scenarios the user metric post-processes each (candidate, stored track) result list as a list), the store is compared before/after, and the same query is re-executed under all worker-command interleavings x caller positions (<= 3 shards x <= 2 candidates: up to 90 x 7 scripts) or under random delay plans; the two result streams are read in either order or one of them is dropped unread, and 15% of the scenarios are preceded by an abandoned (half-consumed) query; the number of distinct command orders actually observed is reported.",
        "level_note": "Exhaustive only at command granularity for the small scenarios; larger scenarios see the schedules the delay plans and the OS produce. Assumes per-worker FIFO command order.",
    },
    "C11": {
        "technique": "fault injection at user callbacks: every callback invocation position of every generated operation instance is made to fail once; snapshot-equality / notification-count / model monitors",
        "level_text": "For each generated instance (7 operation kinds x track shapes x class lists x history flag) the fault-free run is compared with a sequential model (incl. the merge-history rule) and then the instance is re-executed once per callback invocation k with that invocation failing after it has mutated its arguments: Err, no notification and a bit-identical pre-state (attributes, observations of every class, metric state, merge history; both tracks still stored for store merges) are required. Exhaustive over fault positions per instance; instances are sampled (3e3 quick, 1e5 thorough).",
        "level_note": "Faults are injected only at the three user callbacks (update.apply, attributes.merge, metric.optimize); metric state is observed through a probe observation on a clone.",
    },
    "C01": {
        "technique": "runtime reference-model monitor at the API boundary (lifecycle model + id registry) with cross-check of the stored tracks; all four trackers driven by generated multi-scene histories",
        "level_text": "Hundreds (quick) to thousands (thorough) of histories of 30..120 calls over all four tracker kinds, both positional metrics, shard / voting-shard / history / idle-limit ranges and the VisualSORT option grid, with duplicated detections, empty calls, appearing / disappearing objects and rotated boxes; every returned record is checked against the model (order, echo, epoch, length, id freshness, no id twice per call) and against the stored track.",
        "level_note": "Histories are sampled. Workloads avoid the input class of the recorded C15 finding (near-coincident rotated boxes with own-area thresholds enabled), which would make VisualSORT panic inside geo 0.27.",
    },
    "C03": {
        "technique": "runtime reference-model monitor after every API operation + differential runs of the same history under different collection (auto-waste) periods",
        "level_text": "Random operation histories (predict / batches, skip, wasted, idle, clear_wasted, set_auto_waste) over 1..3 scenes for all four trackers; after each operation epochs, expiry, wasted / idle sets, physical store contents, statistics and conservation are compared with a lifecycle model; histories without clear_wasted are re-run with auto-waste periods 0 / 1 / 100 / sprinkled set_auto_waste calls and must produce identical records (up to id bijection), wasted sets, idle sets and epochs.",
        "level_note": "Which ids clear_wasted removes is observed (wasted-store contents just before the call), not predicted. Histories are sampled.",
    },
    "C02": {
        "technique": "runtime oracle: exact subset-DP assignment reference - exhaustive weight matrices for the Hungarian engine; per-call re-derivation of gates/weights (f64 IoU, Mahalanobis from the hooked Kalman state) for Sort/BatchSort histories",
        "level_text": "Layer A runs SortVoting on all ~2e6 weight matrices with <= 3 x <= 3 cells over a grid straddling the threshold plus thousands of random matrices up to 8 x 8 and compares objective values with an exact DP. Layer B snapshots the live tracks before every predict call of hundreds (quick) / thousands (thorough) of crossing / convoy / crowd histories, recomputes gates and weights independently and requires the observed continuations to be clearly admissible and jointly optimal (exact optimum per connected component of the gated pairs); calls where greedy matching is strictly worse than the optimum are counted and must reach a floor. BatchSort histories are run a second time pipelined (one-scene batches submitted back to back, results read by consumer threads, store writes of the voting threads stalled at the guarded schedule point) and each pipelined outcome is judged against the sequential run's pre-call snapshot.",
        "level_note": "Decisions within 1e-4 of a gate are skipped (counted); exact equality of a computed weight and the threshold is never judged. Histories are sampled.",
    },
    "C12": {
        "technique": "runtime oracle: independent re-derivation of every VisualSORT decision from the galleries read out of the store before each call (usability, votes, claim weights, contests) + C02 positional oracle for the fallback stage",
        "level_text": "Hundreds (quick) to 1.2e4 (thorough) histories over the option grid (cosine thresholds -0.3..0.95, Euclidean 0.3..1.6) with look-alike / crossing / crowded / occluded objects and stable or noisy appearance embeddings; thousands of appearance contests per quick run. For every call the record's (track, voting type) is checked against the reference claims: visual only for a qualifying claim of the greatest-weight claimant, best claims honoured, losers never attached to the contested track, claim-less detections optimally assigned among the remaining tracks.",
        "level_note": "Threshold comparisons on computed quantities have 1e-5..1e-4 bands (undecidable calls are counted); qualities are drawn from a grid that hits the thresholds exactly so that >= vs > is exercised on inputs. Own-area shares used for the use / collect thresholds are an f64 inclusion-exclusion reference over the call's boxes (decisions within 1e-3 of the threshold are skipped and counted).",
    },
    "C13": {
        "technique": "runtime shadow-state monitor: per-track shadow lists maintained from the API boundary vs galleries / histories read from the store after every call; unique features identify their detection",
        "level_text": "All four trackers; histories up to ~800 calls with 1..2 long-lived objects (track lifetimes to several hundred updates) and shorter multi-object ones; after every call every touched track is checked for history contents/order/length, gallery bound, collected count, eviction of a minimal-quality feature, collect-threshold filtering, layout (entry 0 newest with box) and, on wasted(), the conversions and the gallery of the expired track itself (reported count = stored features = gallery last seen alive). Qualities above 1 occur.",
        "level_note": "Which of several equal-minimal-quality features is evicted is not prescribed (observed). Collect decisions inside the numeric band are skipped and counted; the own-area share is an independent f64 reference, not the library's function.",
    },
    "C20": {
        "technique": "exhaustive table enumeration against a reference lookup + differential / invariant monitors on constrained vs unconstrained tracker runs",
        "level_text": "All 142 596 constraint tables with <= 3 entries (every order, every split over two add_constraints calls) are probed at 99 (gap, distance) points each; Sort, VisualSort, BatchSort and BatchVisualSort histories with teleporting / re-appearing objects, a quarter of them in normalised coordinates (the batch kinds also re-run pipelined; a third of the constrained VisualSORT configurations derived from options that already carried another table) are run unconstrained, with non-binding and with random binding tables: equality (bit-exact) for non-binding ones, distance-limit invariant and assignment optimality among admissible pairs for binding ones.",
        "level_note": "Table part is exhaustive for the stated alphabet; tracker histories are sampled.",
    },
    "C04": {
        "technique": "runtime differential monitor: interleaved multi-scene run vs fresh single-scene replays of each scene's projection (id bijection, bit-exact numbers) + lifecycle model; explain-divergence oracle for near ties; pipelined re-run of batch histories (one-scene batches A, B, A, ... submitted back to back under stalled store writes) judged call by call",
        "level_text": "Sort / VisualSort / BatchSort / BatchVisualSort histories of 30..90 calls (or multi-scene batches, filled in scene order, reverse order or round-robin) over 2..4 scenes (40% with wide scene ids that agree in their low 32 bits), 60% with all scenes occupying the same image region, ~3% with a further scene of the same tracker holding 1200..1600 untouched tracks next to crowded scenes; each scene's records are compared call by call with a fresh tracker fed only that scene's calls; cross-scene attachments are additionally caught by the lifecycle model.",
        "level_note": "A grouping difference is only accepted as a tie when both outcomes pass the C02/C12 reference on their own pre-states; such ties are counted and capped at 0.1% of compared calls.",
    },
    "C05": {
        "technique": "runtime differential monitor under controlled schedules: 1-shard reference vs shard counts 2..8 x {free, seeded delay plans, gate scripts forcing a worker to deliver its distance chunks last/first, pipelined batch submission}; Miri many-seeds (thorough)",
        "level_text": "Every history (all four tracker kinds; a third with skip / wasted / idle calls mixed in) is re-run for each shard count 2..8 under 3..5 (quick) / 6..8 (thorough) schedules - for the batch kinds also pipelined (consumer thread per one-scene batch, next batch submitted before the previous results are read); records (track ids included for the simple trackers, up to the incrementally built bijection for the batch ones), wasted lists, idle lists, epochs and the number of tracks held must be identical. Thousands of distinct chunk-arrival orders are observed per quick run (reported). Near-tie divergences are recognised by the reference objective and counted.",
        "level_note": "Sees only the schedules it produces (forced arrival orders at command granularity, random delays, Miri's scheduler in the thorough tier).",
    },
    "C06": {
        "technique": "runtime differential + exactly-once history checker + quiescence-based deadlock detector under delay/stall plans at the batch and voting schedule points, with both allowed retrieval disciplines; Miri many-seeds and TSan (thorough)",
        "level_text": "Hundreds (quick) to thousands (thorough) of batch sequences over 1..5 scenes (an eighth: wide batches of 8..40 scenes), 1..4 x 1..4 workers, six schedule families incl. targeted stalls at vote.result.send / batch.scene.dispatched / vote.monitor.dec / vote.store_write, same-thread and consumer-thread retrieval (next batch submitted while the previous one is still being drained); per scene the batch tracker must refine Sort / VisualSort (a grouping difference is judged by the C02 / C12 references against the batch tracker's own quiescent snapshot or, in consumer-thread mode, against the simple tracker's pre-call state); each batch must deliver exactly one in-order result per scene; predict / get / Drop must complete - a hang is decided by observing quiescence (all threads sleeping, no CPU time, no hook events for 4 s), not by a timeout.",
        "level_note": "Absence of deadlock is claimed only for the observed schedules; the explicit-state exploration named in the property's quantifier belongs to another technique family and is not done (DESIGN.md section 8).",
    },
    "C18": {
        "engine": "python-rust-differential",
        "technique": "runtime differential: one generated JSON API script, two interpreters (CPython + the cdylib built from the current tree vs a Rust driver on the wrapped API), field-by-field trace comparison with a per-method coverage table; valgrind memcheck on CPython + similari.so (thorough)",
        "level_text": "160 (quick) to 5000 (thorough) generated scripts of ~40..150 calls covering every class, constructor, static method, method, getter and setter registered in the module (126 coverage keys, each required to be exercised); constructor keyword arguments are randomly omitted so that the documented defaults are compared with what the wrapper applies; option setters are checked through the Debug representation of the options object, including setters called repeatedly with transiently inconsistent values; NMS is called with score thresholds below, inside and above the range of the box heights; batch request objects are re-submitted; exactly touching boxes are clipped; empty feature vectors are passed.",
        "level_note": "The Rust driver encodes the intended meaning of each binding (documented defaults included) and is itself trusted. Batch-tracker ids and shard distributions are schedule dependent and compared after canonical renaming / as sums.",
    },
}
